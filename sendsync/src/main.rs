//! C15, static part: the public data types are Send + Sync. Decided by the type checker when this crate is built;
//! one function per type so that a diagnostic names the offending type.
#![allow(dead_code)]
use evalexpr::{
    DefaultNumericTypes, EmptyContext, EmptyContextWithBuiltinFunctions, EvalexprError, Function, HashMapContext,
    Node, Operator, Value,
};

fn send_sync<T: Send + Sync>() {}

fn node_is_send_sync() {
    send_sync::<Node<DefaultNumericTypes>>()
}
fn value_is_send_sync() {
    send_sync::<Value<DefaultNumericTypes>>()
}
fn error_is_send_sync() {
    send_sync::<EvalexprError<DefaultNumericTypes>>()
}
fn function_is_send_sync() {
    send_sync::<Function<DefaultNumericTypes>>()
}
fn operator_is_send_sync() {
    send_sync::<Operator<DefaultNumericTypes>>()
}
fn hashmapcontext_is_send_sync() {
    send_sync::<HashMapContext<DefaultNumericTypes>>()
}
fn emptycontext_is_send_sync() {
    send_sync::<EmptyContext<DefaultNumericTypes>>()
}
fn emptycontextwithbuiltinfunctions_is_send_sync() {
    send_sync::<EmptyContextWithBuiltinFunctions<DefaultNumericTypes>>()
}

fn main() {
    node_is_send_sync();
    value_is_send_sync();
    error_is_send_sync();
    function_is_send_sync();
    operator_is_send_sync();
    hashmapcontext_is_send_sync();
    emptycontext_is_send_sync();
    emptycontextwithbuiltinfunctions_is_send_sync();
    // and they really cross a thread boundary
    let t: Node<DefaultNumericTypes> = evalexpr::build_operator_tree("1 + 2").unwrap();
    let c = HashMapContext::<DefaultNumericTypes>::new();
    let e = EmptyContext::<DefaultNumericTypes>::default();
    let b = EmptyContextWithBuiltinFunctions::<DefaultNumericTypes>::default();
    let h = std::thread::spawn(move || (t.eval_with_context(&c), t.eval_with_context(&e), t.eval_with_context(&b)));
    let r = h.join().unwrap();
    assert_eq!(r.0, Ok(Value::Int(3)));
    println!("8 public types are Send + Sync; a tree and three contexts crossed a thread boundary: {:?}", r.0);
}

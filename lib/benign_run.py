#!/usr/bin/env python3
"""Benign edits: behaviour-preserving changes of evalexpr (benign/*.diff) must leave every check silent.

usage: benign_run.py [patch ...]   each patch on a scratch worktree of /repo HEAD, all 16 quick checks; prints a table
"""
import glob, json, os, shutil, subprocess, sys, hashlib
HERE = os.path.dirname(os.path.dirname(os.path.abspath(__file__)))
CHECKS = ["C%02d" % i for i in range(1, 17)]
def sh(c, **k): return subprocess.run(c, shell=True, text=True, capture_output=True, **k)
patches = sys.argv[1:] or sorted(glob.glob(HERE + "/benign/*.diff"))
results = {}
for p in patches:
    name = os.path.basename(p)
    wt = "/tmp/evx-benign-" + name.split(".")[0]
    out = "/tmp/evx-benignout-" + name.split(".")[0]
    sh("git -C /repo worktree remove --force %s" % wt); shutil.rmtree(wt, ignore_errors=True)
    sh("git -C /repo worktree add --detach %s HEAD" % wt)
    res = {}
    try:
        r = sh("git apply %s" % p, cwd=wt)
        assert r.returncode == 0, r.stderr
        env = dict(os.environ, EVX_REPO=wt, EVX_OUT=out)
        for c in CHECKS:
            r = subprocess.run(["./check", c, "quick"], cwd=HERE, env=env, text=True, capture_output=True)
            res[c] = r.returncode
            if r.returncode != 0:
                print(name, c, "NOT SILENT:", [l for l in r.stdout.splitlines() if "witness" in l or "INCONCLUSIVE" in l][:2], flush=True)
    finally:
        sh("git -C /repo worktree remove --force %s" % wt); shutil.rmtree(wt, ignore_errors=True)
        shutil.rmtree(out, ignore_errors=True)
        tag = hashlib.sha256(wt.encode()).hexdigest()[:10]
        for sub in glob.glob(HERE + "/work/*-" + tag):
            shutil.rmtree(sub, ignore_errors=True)
    results[name] = res
    print(name, " ".join("%s:%s" % (c[1:], {0: ".", 1: "X", 2: "?"}.get(v, v)) for c, v in res.items()), flush=True)
json.dump(results, open(HERE + "/benign/RESULTS.json", "w"), indent=1)

"""Per-property metadata used by the driver: evidence rule text, assumptions, build profiles."""

COMMON = [
    "only executed inputs are decided; beyond the exhaustive bounds coverage is random (seeded by VERIF_SEED)",
    "the reference models in monitor/src/refmodel are written from the README and self-checked before every run",
    "default numeric types (i64/f64) only; optional features regex/rand are not exercised",
]

PROPS = {
    "C03": dict(
        rule="a case is one (operator, left operand, right operand) triple (or prefix operator, operand); every case "
             "is evaluated with the operands bound as variables and compared bit-for-bit / by error class with an "
             "i128/f64 reference table, plus a literal-source route where the language can spell the operands and an "
             "op-assignment route (`a op= b` must equal `a = a op b` with the type-checked write); a case is "
             "non-trivial when it was evaluated and the reference defines the outcome; distinct = distinct "
             "(op, operand, operand) renderings (64-bit hash; capped per shard, so counted conservatively) Also: every matrix case once more in a context with builtins disabled and all 49 builtin names bound to marker functions (operators must not consult the context's functions); boundaries of the narrower integer types in the pool.",
        assumptions=COMMON + ["f64 library functions (powf, fmod) are trusted: the reference calls the same libm",
                              "MIN % -1 may be 0 or an arithmetic error (both documented readings accepted)"],
    ),
    "C10": dict(
        rule="a case is one call f(v): f one of the 49 builtin names (plus 3 non-builtin names that must be reported "
             "unknown), v an argument value of arity 0..3 drawn from the complete matrix Empty / pool / pool^2 / "
             "subpool^3, from type-directed random arguments, or from the len/substring unit-consistency sweep; the "
             "observed outcome is compared with the reference builtin (bit-exact value, error where the reference "
             "says error); non-trivial = the reference claims an outcome (not `unclaimed`); distinct = distinct "
             "(name, argument) renderings Also: tuples of 50-600 elements and strings of 200-4000 characters as arguments; 18 names that must be unknown (aliases under foreign namespaces, feature-gated builtins); str::from of a non-string equals the Display of the value, alone and as a tuple element; every builtin on every whole number -1100..1100 (integer and float, alone and paired with 2, 10, 0.5); a third of the random numeric arguments within 1e-9 … 0.25 of the special points of the math functions; boundary-sized tuples and strings; every builtin with 0 … 10, 15-17, 31-33, 255, 256 arguments in 5 fillings; floats where exp / sinh / cosh / exp2 leave the finite range.",
        assumptions=COMMON + [
            "f64 library functions and Unicode case mapping / trimming are std's on both sides; only the wiring is checked",
            "not claimed (accepted, any non-panicking outcome): shifts outside 0..63, min/max with NaN or of an empty tuple, "
            "substring byte indices inside a character, Empty needle in contains, escaping of quotes inside tuple renderings",
            "len/substring unit is inferred from the observed len (bytes or characters); only consistency is required",
        ],
    ),
    "C02": dict(
        rule="a case is one rendering of an expression: every token sequence up to the length bound over the token "
             "alphabets (exhaustive), every AST with <= 3 operator nodes over all 14 binary / 2 prefix / 9 assignment "
             "operators, call, tuple, chain in minimal / full / random redundant parenthesisation (exhaustive), and "
             "random ASTs to depth 12; the reference parser (Pratt, README table) classifies it and for well-formed "
             "input the implementation tree (RootNode wrappers stripped) must equal the reference AST; "
             "non-trivial = classified well-formed (and, for rendered ASTs, the rendering parses back to the AST "
             "in the reference: oracle self-check); distinct = distinct source texts Every rendering is judged single-spaced, in its tightest (blank-free) form and, for a sample, under a random separator plan; chains and nests of 130-1500 operands / levels per construct; a sweep over the 55-token alphabet of all operators and word kinds.",
        assumptions=COMMON + [
            "not claimed and skipped: assignment with a non-identifier target, mixed chains of assignment operators, "
            "a prefix operator as right operand of ^ followed by ^",
        ],
    ),
    "C13": dict(
        rule="a case is one token sequence (every sequence up to the length bound over three alphabets, plus random "
             "damaged programs); the reference recogniser classifies it ill-formed (unbalanced parentheses / operator "
             "without operand / juxtaposed operands); a violation needs the real code to precompile it to a tree of "
             "correct arity AND to evaluate it successfully in one of 12 contexts (or to accept unbalanced / report "
             "balanced input as unbalanced); non-trivial = classified ill-formed; distinct = distinct source texts Each sequence is judged single-spaced, tight and (a sample) under a separator plan; accepted trees with a wrong-arity node are evaluated through both paths in the 12 contexts and must fail; text constants of the tree are bound as variable names there; an assignment operator without any left operand is ill-formed; damaged programs nested 60-140 groups deep with unbalanced parentheses; the byte-order-mark word.",
        assumptions=COMMON + [
            "ill-formed inputs whose tree has correct arity but evaluate in none of the 12 probe contexts are counted as "
            "unconfirmed, not reported",
        ],
    ),
    "C05": dict(
        rule="a case is one program mixing `,` `;` and parentheses: every string over { , ; ( ) e } up to the length "
             "bound with e instantiated by a literal / variable / assignment / recording call, every A16 token "
             "sequence containing a separator, and random nested sequence programs; for well-formed ones the tree "
             "must equal the reference chain-of-tuples AST and value, final context and ordered effect log must "
             "equal the reference evaluator's; non-trivial = classified well-formed; distinct = distinct source texts Each well-formed sequence also runs through the read-only path, a tuple-typed entry point and the context-free eval(); sequences nested 10-60 levels and flat ones of 100-700 elements; a quarter under random separator plans; text elements containing separators, comment markers, quotes and trailing backslashes; variables named `_`, min, math::pi; nests of 60-140 groups, also with a parenthesis too many / too few.",
        assumptions=COMMON,
    ),
    "C08": dict(
        rule="a case is one program whose leaves have observable effects (recording user functions t/b/s/fl, failing "
             "calls, unknown variables, assignments): all programs with <= 3 operator nodes (exhaustive) and random "
             "programs to depth 10 with planted failures, each from a precompiled and a string mutable entry point on "
             "a RecordingContext; the triple (result, final context, ordered log of user-function calls and set_value "
             "attempts) must equal the reference interpreter's, and the H2 hook trace must satisfy the schedule "
             "specification (children once, left to right, then apply; stop in the failing application); "
             "non-trivial = the reference claims the program; distinct = distinct (source, initial context) Also per program: the read-only path (effects + schedule), one of the 14 typed mutable entry points (effects + final context), a second use of the same tree after an evaluation against a different context; long programs (50-300 statements), programs nested 130-330 levels, sequences of every size 2..70, trees evaluated 20-80 times on one context; type-directed programs that mostly run to completion; every program also on the bare HashMapContext (result + final context); user functions that insist on a tuple, call the library themselves or fail with another function's not-found error; NaN values; trees received through clone_from; an evaluated tree meeting a context that shadows the builtins; long scripts whose last statement does not parse (no effect at all); text with CR inside literals; functions nesting 66-77 evaluations; `if` with failing / assigning branches (all arguments are evaluated); wrong-arity calls of fixed-arity builtins after effects; a claimed program with effects that does not precompile is a violation.",
        assumptions=COMMON + [
            "not generated: `x op= e` whose e assigns x (two documented readings differ)",
            "get_value reads are logged but not order-compared with effects",
        ],
    ),
    "C11": dict(
        rule="a case is one (program, context) pair from the C08 corpus; it is evaluated immutably (precompiled and "
             "string form) and mutably on clones of the same context; the immutable outcome must equal the reference "
             "projection (ContextNotMutable iff an assignment is applied before finishing or failing, else exactly "
             "the mutable result), the context must be observably unchanged with no set_value call, the H2 immutable "
             "schedule must be a prefix of the mutable one; also a default-set_value context through the mutable "
             "path and both empty contexts; non-trivial = the reference claims the program; distinct = distinct "
             "(source, initial context) Also: every A16 token sequence up to length 4/5 and damaged programs (also ones the reference does not claim) with the projection decided by the H2 hook; C12's 48-entry-point checker on typed programs, numeric-looking strings and BOM-prefixed strings; deep and sized programs; a third of the programs: the evaluated tree is renamed through the mutable iterators and both paths must follow; run-time failures next to missing operands; the string-level mutable entry point equals the precompiled mutable run; literals with CR / CR+LF; one context object evaluated read-only, then mutably.",
        assumptions=COMMON,
    ),
    "C09": dict(
        rule="a case is one cell of the complete configuration matrix: 53 names (49 builtins + 4 others) x 7 context "
             "kinds (HashMapContext, clone, after clear_functions, after clear, clone with the original modified "
             "afterwards, RecordingContext, the two fixed empty contexts) x builtin switch {on, off, toggled twice} x "
             "user function named n {absent, present} x variable named n {absent, present} x 10 call forms, each "
             "through 4 entry points (string/precompiled x immutable/mutable), plus random nested call chains; result, "
             "callee (recorded user-function calls) and argument shape must equal the reference lookup model; "
             "non-trivial = the reference claims the cell; distinct = distinct (cell, entry point) (now 16 call forms incl. boolean / float literals, three arguments, an assignment inside the argument, Unicode blanks; user function absent / present / present-but-failing; one precompiled tree per form reused across configurations; 16 non-builtin names incl. builtins under foreign namespaces and feature-gated names; a fourth user-function mode (present but failing with another function's FunctionIdentifierNotFound: its error is the outcome); context kinds after 256 and after 65,536 clear_functions, clear_functions while a clone is alive, every function defined twice; a fifth user-function mode (the function calls its own name in a context of its own).)",
        assumptions=COMMON + ["a user function that itself returns FunctionIdentifierNotFound is not generated (it is the "
                              "Context trait's own 'undefined' signal)"],
    ),
    "C12": dict(
        rule="a case is one (string, context) pair: random programs, token soup, one snippet per result type and error "
             "kind, hostile character soup; all 24 string-level and 24 tree-level entry points are called from clones "
             "of the same context and compared (Debug-structurally, NaN-aware) with the projection of the untyped "
             "evaluation; final contexts of mutable variants, repeatability and the precompile-error rule are checked "
             "too; non-trivial = every pair; distinct = distinct (string, context) A third of the cases re-use a tree precompiled earlier and already evaluated under another context (some contexts shadow builtins); deep nesting (130-900), BOM prefixes, plausible pre-seeded constant names; trees received through clone_from; the 14 typed context entry points on up to four inner nodes per tree; a variable named like the whole source text; text-literal assignment targets; 60 pairs of equal-length sources colliding under 32-bit digests (truncated std hash, FNV-1a, djb2, sdbm, 31-polynomial) evaluated back to back; user functions nesting up to 80 string evaluations; a counting function in every context (read-only entry points run on clones, so that every entry point starts from the same state).",
        assumptions=COMMON + ["implementation against implementation: the untyped string-level mutable evaluation is the base"],
    ),
    "C14": dict(
        rule="a case is one well-formed program: every AST with <= 3 operator nodes with distinct names at every "
             "identifier (minimal and full parentheses), six hand-picked traversal-hostile shapes, random ASTs to "
             "depth 12; the 5 immutable and 5 mutable iterators must equal the occurrence list of the generating AST; "
             "unknown-identifier errors must name listed identifiers; an injective renaming through the mutable "
             "iterators plus the same renaming of the context must not change the result; non-trivial = the program "
             "precompiles; distinct = distinct source texts Also: partially advanced iterators finished through for_each / fold / last / count / nth; renamed source must precompile to the iterator-renamed tree; renaming per namespace; identifiers overlapping between the namespaces; non-ASCII identifiers whose low byte is an operator character; a quarter of the programs tight or under separator plans; identifiers containing U+FEFF / U+200B; literals respelled in hexadecimal / exponent form, also directly in front of a sign; interpolation-style text naming variables of the program; dotted names next to tuple-valued prefixes; variables in the builtin namespaces and named like constants; 15 marker-like first identifiers x every binary operator without blanks; immutable vs mutable iterators of up to six inner nodes per program.",
        assumptions=COMMON,
    ),
    "C06": dict(
        rule="a case is one literal: a string (every single character of a 2,000-code-point sample, random strings, 5 "
             "embeddings), an escape sequence or truncated literal (must be an error), an integer (powers of two +-1, "
             "10^k +-1, random, decimal / hex / leading zeros, embedded without spaces), a finite non-negative double "
             "in up to 8 renderings x 6 embeddings, or a word (generated identifiers and near-literals must be "
             "identifiers that can be assigned and read); the oracle is the round trip through the harness's own "
             "renderers; non-trivial = every literal; distinct = distinct literal values Also: 100 two-character strings over a hostile set, 22 multi-character escape-like sequences (all must be errors), leading-dot exponent renderings, 40 quote / slash / star look-alikes and format characters, zero-width characters inside words; words with doubled or foreign radix prefixes; an identifier glued to a string literal is that function applied to that string; every literal also at the end of a 30-assignment program (its own `<mantissa>e` head used as an identifier before), after `1e+` / `2.5E-`, and with its inner blanks doubled; digit-heavy words up to 20 characters; strings, identifiers and digit runs of boundary lengths (1 … 2048); comments inside would-be signed exponents; the typed context-free entry points on every identifier word (bare, negated, padded); operator words of other languages and foreign literal suffixes as identifiers.",
        assumptions=COMMON + ["Rust's float formatting/parsing (shortest round trip) is trusted to build the renderings; every "
                              "rendering is parsed back by the harness before the implementation is asked",
                              "integer / hex words outside the 64-bit range and floats overflowing to infinity are not claimed"],
    ),
    "C07": dict(
        rule="a case is one token sequence (every sequence up to the length bound over A16 and over the 39-token "
             "alphabet of all operators and word kinds, random programs, token soup) rendered canonically and under k "
             "random separator plans (each gap independently: empty where no fusion is possible, any of the 25 "
             "White_Space characters, block and line comments); both renderings must precompile to equal trees or "
             "fail with equal errors; plus unterminated-comment and comment-marker-inside-string rules; non-trivial = "
             "the canonical rendering re-lexes to the sequence; distinct = distinct token sequences The canonical rendering of a well-formed sequence is additionally anchored to the reference parser; comment bodies are random (non-ASCII, CR, nested markers, control and bidirectional characters); typographic-quote words; words ending in `::`; one separator of 16 … 140,000 characters; typographic variants of operator characters and bracket words.",
        assumptions=COMMON + ["a separator plan is used only if the reference lexer re-lexes the rendering to the same tokens "
                              "(conservative empty-gap rule of DESIGN 3.1)"],
    ),
    "C04": dict(
        rule="a case is one step of a history of context operations (set_value with 12 values of all 6 types incl. 0- and "
             "1-tuples, expression assignments with all 9 assignment operators x literals of all types, x = y, reads, "
             "clear_variables / clear_functions / clear, set_function, builtin toggle, clone-and-continue) applied to a "
             "real HashMapContext and to the abstract map model; after every step the return value and the complete "
             "observable state (get_value of every name, both listings sorted, call_function, builtin switch and its "
             "effect, and every left-behind clone original) are compared; the BFS applies every operation from every "
             "(abstract state, last-operation kind) key reached within the key budget, replaying each history on a "
             "fresh context; random histories of 50-300 steps over 5 names extend it; non-trivial = a BFS key or a "
             "completed random history; distinct = distinct keys / histories Also: contexts with 10-300 variables and 10-200 functions (type-changing assignments, clears, re-use), histories over 20 names, clone_from into a dirty target, rebinding of functions, user functions named like builtins, contexts built by context_map! and math_consts_context! followed by every operation; functions named like the variables; 17 plausible pre-defined names and access-path look-alikes of every bound name (`a.0`, `a[0]`, `a::0`) must read as unknown variables in every state; one context with 300,000 / 1,000,000 distinct names (plus words colliding under common string hashes), each read back; literals differing only in inner blanks; a counting user function across clones (each clone counts its own calls); reserved-looking names (`_`, math::pi, min, if, x1 / x01).",
        assumptions=COMMON + ["the BFS is complete only up to its key budget per first operation and history length 6"],
    ),
    "C01": dict(
        rule="a case is one call sequence into the public API under the panic monitor (panic hook + catch_unwind; a dying "
             "worker is re-run case by case by the driver): 20 maximal-nesting patterns at 4096 characters, the builtin "
             "matrix and random builtin arguments, the operator matrix and random operands, every token sequence up to "
             "the length bound through precompilation + 24 tree-level entry points + all iterators + Display/Debug/"
             "Clone/PartialEq (with the H1 parser-precondition monitor), hostile strings through all 48 entry points, "
             "contexts built through new / set_value / clone / clear / context_map! / math_consts_context!; every "
             "workload runs in the release profile and in the unoptimised dev profile (overflow checks and debug "
             "assertions on); non-trivial = every case (the only oracle is 'returned'); distinct = distinct inputs Added later: Display/Debug of 19 constructed and 19 evaluated errors around every pool value and long non-ASCII strings in all byte alignments; every phase of the C10 and C03 checks under the panic monitor; words made of the numeric characters of all scripts; user functions that re-enter the library or pass on another function's not-found error; every name the working tree's builtin table matches on (read from src/function/builtin.rs by the driver) with the full argument matrix; error constructors with degenerate arguments; access-path look-alikes (`a.2`, `a[2]`, `a.len`) on the bound names of the probe contexts.",
        assumptions=COMMON + ["worker threads run with an 8 MiB stack (the Linux main-thread default); the README bounds input length "
                              "because parsing and evaluation recurse",
                              "allocation failure is outside the property (README)",
                              "user functions in the contexts do not panic themselves"],
        profiles=["release", "dev"],
        profile_scale={"dev": 0.1},
    ),
    "C15": dict(
        rule="a case is one evaluation of a shared precompiled expression (6 expressions incl. 60-deep and 48-deep trees, "
             "builtin and user-function calls, a deliberately slow user function) against a shared context (2 "
             "Arc<HashMapContext>, 2 Arc<SlowContext> whose lookups spin for a PRNG-chosen time and stamp a global "
             "sequence number) issued by one of 16-32 threads released by a barrier; expected results are computed "
             "sequentially beforehand on freshly built trees and contexts; also clones / Display / iterators / drops of "
             "the shared objects from several threads; the same workload scaled down runs under Miri (one schedule per "
             "seed; UB and data races fatal) and, in the thorough tier, under ThreadSanitizer; Send + Sync of the 8 "
             "public types is decided by rustc on /verif/sendsync; non-trivial = every evaluation; distinct = distinct "
             "interleaving signatures (hash of the thread-id sequence of the SlowContext log per round) Later additions: 13 expressions incl. 40/24/20-element nodes, 16 distinct builtins per expression, long identifiers; a context that lives through all rounds; contexts built on the worker threads; clones of shared trees are evaluated; only exactly specified builtins (Miri perturbs inexact float intrinsics); per round one shared tree assigning identifiers new to the process evaluated by all threads at once on their own contexts, 96 string-level evaluations of distinct sources per thread, a slow shared function called with 0.0 / -0.0 at overlapping times; min / max / contains_any on thousands of elements; a re-entrant user function racing with never-seen function names; a worker that makes no progress for 180 s (900 s under Miri) while others are unfinished is reported as a deadlock; per round and thread its own arguments for text conversions, fractional powers (not under Miri), renderings of 64+-element tuples, each repeated back to back behind a barrier; constant trees precompiled first thing on fresh threads and evaluated by all; long-lived threads calling a capturing function of per-round contexts; contains on 70,000 elements.",
        assumptions=COMMON + ["race detectors see only schedules that occurred (Miri: seeded; TSan/native: whatever the OS produced)",
                              "Send/Sync itself is the compiler's verdict, reported through the same interface"],
        profiles=[],
    ),
    "C16": dict(
        rule="a case is one round trip: a string (fixed examples, character soup, token soup, mostly-well-formed programs, "
             "random scalar values) serialized as a ron string and deserialized as a Node through ron 0.8.1 and through "
             "serde's StrDeserializer, compared with build_operator_tree (equal trees / equal messages); or a "
             "HashMapContext built through the API (set_value of every value type incl. nested tuples, +-0.0, "
             "subnormals, infinities, NaN, boundary ints, awkward strings and names, expression assignments, functions, "
             "builtin switch) serialized compactly or pretty and deserialized: variable map (floats by bit pattern), "
             "switch and absence of functions must survive; non-trivial = every round trip the transport itself "
             "carries faithfully; distinct = distinct strings / serialized contexts Also: damaged / truncated serialized contexts interleaved (failed deserializations must leave nothing behind), tuples of 8-40 elements, hundreds of parentheses (nested, in strings, in comments), CR+LF in string literals, byte-order marks; function names differing from builtins only in case or by a look-alike letter; every word of a serialized context becomes a variable name of a second context that must round-trip; escape look-alike text values; names equal under a normalisation; the same further operations on the original and the round-tripped context; user functions named like builtins must be gone; values that are `==` and different side by side; root-qualified names.",
        assumptions=COMMON + ["built with cargo +1.81.0 (only that registry holds ron 0.8.1)",
                              "ron has a single NaN token: NaN payload and sign are outside what the format can carry",
                              "a string or context ron itself cannot carry (checked with a plain String / Vec) is skipped"],
        profiles=[],
    ),
}

# additions of the tenth seeding round (appended to the rule texts above)
ROUND10_COMMON = (" Before one case in six the worker thread first does something unrelated that fails half-way (an unterminated "
                  "comment glued to a word, an illegal escape inside a text literal, an unmatched quote or parenthesis, a failing "
                  "evaluation) through one of four entry points: the case judged afterwards must not inherit anything from it "
                  "(counted as `history perturbations before a case`). One context in three built for a case has a past: its "
                  "names were bound to values of other types and then cleared (clear / clear_variables); a set_value that such a "
                  "context rejects is reported as a violation of the property under check.")
ROUND10 = {
    "C02": " Also: look-alike leaves (digit-initial words ending in e/E, names containing typographic operator characters such as U+2212 / U+00D7, text constants made of digits and signs) in every one-operator tree over all ordered leaf pairs and in the two-operator trees; tight renderings also put operator against operator where the reference lexer keeps them apart (`2**3`, `a*-b`).",
    "C03": " Also: back-to-back evaluations on operands that are equal under == but different values (sign of zero, int / float twins, NaNs) for every operator and side; trees precompiled from literals, evaluated, edited in place through children_mut / operator_mut (operands, operator) and evaluated again.",
    "C04": " Also: histories starting from HashMapContext::default() and from what std::mem::take leaves behind, not only from new().",
    "C05": " Also: assignments to a variable holding the empty value and boolean op-assignments (`||=`, `&&=`) whose right-hand side is a parenthesised sequence and whose target already holds the deciding value, as elements of the random sequence programs.",
    "C06": " Also: two float literals in one input whose text differs only in the sign of the exponent.",
    "C07": "",
    "C08": " Also: the program in parentheses followed by a binary operator that lacks its right operand: all effects of the program happen, then the incomplete application fails (or the program's own failure is reported).",
    "C09": " Also: the tuple without elements (held by a variable) as argument in three call forms; every builtin and non-builtin name under a second numeric type (Int = i64, Float = f64) before and after its use under the default one, in HashMapContext and both fixed contexts.",
    "C10": " Also: one argument of math::pow / math::log / math::atan2 / math::hypot pinned to each of 26 special values (2, 10, e, 0.5, powers of two, ... as integer and as float), the other drawn with a full 53-bit mantissa over 2^-10..2^10.",
    "C11": "",
    "C12": " Also: the `fresh empty context` of the context-free comparison is, every other source, a context whose earlier bindings of other types were cleared.",
    "C13": " Also: every short (and a quarter of the longer) ill-formed source is evaluated at string level right after a well-formed-looking sibling that differs only in blanks (all blanks removed; blanks doubled).",
    "C14": " Also: histories on one tree: evaluate, rename the applied functions through iter_function_identifiers_mut (builtin to builtin, builtin to user function, unknown to builtin), evaluate again, compared with a tree precompiled from the renamed source; clone_from into a tree of the same shape whose identifiers have other classes, iterators checked on the refreshed tree.",
    "C01": "",
}
for _k, _v in ROUND10.items():
    PROPS[_k]["rule"] += _v + ROUND10_COMMON
PROPS["C15"]["rule"] += (" Also: cold-start processes (32 quick / 320 thorough) whose very first use of the library happens on all threads at "
                         "once behind a barrier (builtin lookups, unknown functions, parsing, formatting), followed by per-thread clones of "
                         "one context whose function owns a counter by value: every thread must see the sequential 1, 2, 3, ….")
PROPS["C16"]["rule"] += (" Also: a blank-variant sibling (blanks doubled also inside text literals, line breaks turned into spaces) "
                         "deserialized right after its twin must give the tree a thread without any history precompiles for it.")

"""Per-property metadata used by the driver: evidence rule text, assumptions, build profiles."""

COMMON = [
    "only executed inputs are decided; beyond the exhaustive bounds coverage is random (seeded by VERIF_SEED)",
    "the reference models in monitor/src/refmodel are written from the README and self-checked before every run",
    "default numeric types (i64/f64) only; optional features regex/rand are not exercised",
]

PROPS = {
    "C03": dict(
        rule="a case is one (operator, left operand, right operand) triple (or prefix operator, operand); every case "
             "is evaluated with the operands bound as variables and compared bit-for-bit / by error class with an "
             "i128/f64 reference table, plus a literal-source route where the language can spell the operands and an "
             "op-assignment route (`a op= b` must equal `a = a op b` with the type-checked write); a case is "
             "non-trivial when it was evaluated and the reference defines the outcome; distinct = distinct "
             "(op, operand, operand) renderings (64-bit hash; capped per shard, so counted conservatively)",
        assumptions=COMMON + ["f64 library functions (powf, fmod) are trusted: the reference calls the same libm",
                              "MIN % -1 may be 0 or an arithmetic error (both documented readings accepted)"],
    ),
}

"""Per-property metadata used by the driver: evidence rule text, assumptions, build profiles."""

COMMON = [
    "only executed inputs are decided; beyond the exhaustive bounds coverage is random (seeded by VERIF_SEED)",
    "the reference models in monitor/src/refmodel are written from the README and self-checked before every run",
    "default numeric types (i64/f64) only; optional features regex/rand are not exercised",
]

PROPS = {
    "C03": dict(
        rule="a case is one (operator, left operand, right operand) triple (or prefix operator, operand); every case "
             "is evaluated with the operands bound as variables and compared bit-for-bit / by error class with an "
             "i128/f64 reference table, plus a literal-source route where the language can spell the operands and an "
             "op-assignment route (`a op= b` must equal `a = a op b` with the type-checked write); a case is "
             "non-trivial when it was evaluated and the reference defines the outcome; distinct = distinct "
             "(op, operand, operand) renderings (64-bit hash; capped per shard, so counted conservatively)",
        assumptions=COMMON + ["f64 library functions (powf, fmod) are trusted: the reference calls the same libm",
                              "MIN % -1 may be 0 or an arithmetic error (both documented readings accepted)"],
    ),
    "C10": dict(
        rule="a case is one call f(v): f one of the 49 builtin names (plus 3 non-builtin names that must be reported "
             "unknown), v an argument value of arity 0..3 drawn from the complete matrix Empty / pool / pool^2 / "
             "subpool^3, from type-directed random arguments, or from the len/substring unit-consistency sweep; the "
             "observed outcome is compared with the reference builtin (bit-exact value, error where the reference "
             "says error); non-trivial = the reference claims an outcome (not `unclaimed`); distinct = distinct "
             "(name, argument) renderings",
        assumptions=COMMON + [
            "f64 library functions and Unicode case mapping / trimming are std's on both sides; only the wiring is checked",
            "not claimed (accepted, any non-panicking outcome): shifts outside 0..63, min/max with NaN or of an empty tuple, "
            "substring byte indices inside a character, Empty needle in contains, escaping of quotes inside tuple renderings",
            "len/substring unit is inferred from the observed len (bytes or characters); only consistency is required",
        ],
    ),
    "C02": dict(
        rule="a case is one rendering of an expression: every token sequence up to the length bound over the token "
             "alphabets (exhaustive), every AST with <= 3 operator nodes over all 14 binary / 2 prefix / 9 assignment "
             "operators, call, tuple, chain in minimal / full / random redundant parenthesisation (exhaustive), and "
             "random ASTs to depth 12; the reference parser (Pratt, README table) classifies it and for well-formed "
             "input the implementation tree (RootNode wrappers stripped) must equal the reference AST; "
             "non-trivial = classified well-formed (and, for rendered ASTs, the rendering parses back to the AST "
             "in the reference: oracle self-check); distinct = distinct source texts",
        assumptions=COMMON + [
            "not claimed and skipped: assignment with a non-identifier target, mixed chains of assignment operators, "
            "a prefix operator as right operand of ^ followed by ^",
        ],
    ),
    "C13": dict(
        rule="a case is one token sequence (every sequence up to the length bound over three alphabets, plus random "
             "damaged programs); the reference recogniser classifies it ill-formed (unbalanced parentheses / operator "
             "without operand / juxtaposed operands); a violation needs the real code to precompile it to a tree of "
             "correct arity AND to evaluate it successfully in one of 12 contexts (or to accept unbalanced / report "
             "balanced input as unbalanced); non-trivial = classified ill-formed; distinct = distinct source texts",
        assumptions=COMMON + [
            "ill-formed inputs whose tree has correct arity but evaluate in none of the 12 probe contexts are counted as "
            "unconfirmed, not reported",
        ],
    ),
    "C05": dict(
        rule="a case is one program mixing `,` `;` and parentheses: every string over { , ; ( ) e } up to the length "
             "bound with e instantiated by a literal / variable / assignment / recording call, every A16 token "
             "sequence containing a separator, and random nested sequence programs; for well-formed ones the tree "
             "must equal the reference chain-of-tuples AST and value, final context and ordered effect log must "
             "equal the reference evaluator's; non-trivial = classified well-formed; distinct = distinct source texts",
        assumptions=COMMON,
    ),
    "C08": dict(
        rule="a case is one program whose leaves have observable effects (recording user functions t/b/s/fl, failing "
             "calls, unknown variables, assignments): all programs with <= 3 operator nodes (exhaustive) and random "
             "programs to depth 10 with planted failures, each from a precompiled and a string mutable entry point on "
             "a RecordingContext; the triple (result, final context, ordered log of user-function calls and set_value "
             "attempts) must equal the reference interpreter's, and the H2 hook trace must satisfy the schedule "
             "specification (children once, left to right, then apply; stop in the failing application); "
             "non-trivial = the reference claims the program; distinct = distinct (source, initial context)",
        assumptions=COMMON + [
            "not generated: `x op= e` whose e assigns x (two documented readings differ)",
            "get_value reads are logged but not order-compared with effects",
        ],
    ),
    "C11": dict(
        rule="a case is one (program, context) pair from the C08 corpus; it is evaluated immutably (precompiled and "
             "string form) and mutably on clones of the same context; the immutable outcome must equal the reference "
             "projection (ContextNotMutable iff an assignment is applied before finishing or failing, else exactly "
             "the mutable result), the context must be observably unchanged with no set_value call, the H2 immutable "
             "schedule must be a prefix of the mutable one; also a default-set_value context through the mutable "
             "path and both empty contexts; non-trivial = the reference claims the program; distinct = distinct "
             "(source, initial context)",
        assumptions=COMMON,
    ),
}

#!/usr/bin/env python3
"""Confirms a sub-agent's seeded change in a scratch worktree and files it under /verif/seeded/<id>-<n>/.

usage: seed_intake.py C07 [N ...]      (reads /tmp/seed-c07/patchN.diff, demoN.rs, metaN.json)
Confirms: applies to HEAD of /repo; `cargo test --offline` green (58 + doctests) [+ --features serde for C16];
demo fails with the change and passes without it.
"""
import json, os, shutil, subprocess, sys
prop = sys.argv[1]
num = prop[1:]
SRC = os.environ.get("SEED_SRC", "/tmp/seed-c") + num      # SEED_SRC=/tmp/seed2-c for the second round
OFFSET = int(os.environ.get("SEED_OFFSET", "0"))            # SEED_OFFSET=3: patch1 is filed as <id>-4
ns = sys.argv[2:] or ["1", "2", "3"]
WT = "/tmp/wt-intake-%s" % num
def sh(c, cwd=None, timeout=1200):
    return subprocess.run(c, shell=True, text=True, capture_output=True, cwd=cwd, timeout=timeout)
sh("git -C /repo worktree remove --force %s" % WT)
r = sh("git -C /repo worktree add --detach %s HEAD" % WT); assert r.returncode == 0, r.stderr
feat = " --features serde" if prop == "C16" else ""
def tests(cwd):
    r = sh("cargo test --offline%s 2>&1 | grep -E '^test result|error(\\[|:)' " % feat, cwd=cwd)
    p = f = 0
    for l in r.stdout.splitlines():
        w = l.split()
        if l.startswith("test result"): p += int(w[3]); f += int(w[5])
        if l.startswith("error"): f += 1000
    return p, f
def demo(cwd, n):
    shutil.copy("%s/demo%s.rs" % (SRC, n), os.path.join(cwd, "tests", "demo%s.rs" % n))
    r = sh("cargo test --offline%s --test demo%s 2>&1 | tail -30" % (feat, n), cwd=cwd)
    os.remove(os.path.join(cwd, "tests", "demo%s.rs" % n))
    ok = "test result: ok" in r.stdout
    return ok, r.stdout
try:
    for n in ns:
        src = SRC
        if not os.path.exists("%s/patch%s.diff" % (src, n)):
            print(prop, n, "no patch"); continue
        base_ok, base_out = demo(WT, n)
        r = sh("git apply %s/patch%s.diff" % (src, n), cwd=WT)
        if r.returncode != 0:
            print(prop, n, "PATCH DOES NOT APPLY", r.stderr[:200]); continue
        p, f = tests(WT)
        mut_ok, mut_out = demo(WT, n)
        sh("git checkout -- . && git clean -fdq -e target", cwd=WT)
        verdict = dict(applies=True, tests_passed=p, tests_failed=f, demo_passes_without=base_ok, demo_fails_with=not mut_ok)
        good = f == 0 and p >= 93 and base_ok and not mut_ok
        print(prop, n, "CONFIRMED" if good else "REJECTED", verdict)
        if not good:
            print(base_out[-600:] if not base_ok else mut_out[-600:])
            continue
        dst = "/verif/seeded/%s-%d" % (prop, int(n) + OFFSET)
        os.makedirs(dst, exist_ok=True)
        shutil.copy("%s/patch%s.diff" % (src, n), dst + "/patch.diff")
        shutil.copy("%s/demo%s.rs" % (src, n), dst + "/demo.rs")
        try: meta = json.load(open("%s/meta%s.json" % (src, n)))
        except Exception: meta = {}
        out = dict(property=prop, summary=meta.get("summary", ""), needs=meta.get("needs", ""), files=meta.get("files", []),
                   author="independent sub-agent given only the property text and a scratch worktree",
                   agent_verified=meta.get("verified", ""),
                   confirmed_by_me=dict(how="scratch worktree %s of /repo HEAD: git apply; cargo test --offline%s; demo copied to tests/ and run with and without the patch" % (WT, feat), **verdict))
        json.dump(out, open(dst + "/meta.json", "w"), indent=1, ensure_ascii=False)
finally:
    sh("git -C /repo worktree remove --force %s" % WT)
    shutil.rmtree(WT, ignore_errors=True)

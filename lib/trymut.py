#!/usr/bin/env python3
"""Apply a change to /repo's working tree, run checks, restore the tree.

usage: trymut.py (--revert <commit> | --patch <file> | --sed 's/a/b/' <path>) [--tests] -- C02 C13 ...   (quick tier)
"""
import subprocess, sys, os
args = sys.argv[1:]
split = args.index("--")
spec, checks = args[:split], args[split + 1:]
tier = os.environ.get("TIER", "quick")
def sh(c, **k): return subprocess.run(c, shell=True, text=True, **k)
assert sh("git -C /repo status --porcelain --untracked-files=no", capture_output=True).stdout.strip() == "", "repo dirty"
try:
    i = 0
    while i < len(spec):
        if spec[i] == "--revert":
            r = sh("git -C /repo diff %s~1 %s | git -C /repo apply -R" % (spec[i+1], spec[i+1])); assert r.returncode == 0; i += 2
        elif spec[i] == "--patch":
            r = sh("git -C /repo apply %s" % spec[i+1]); assert r.returncode == 0, "patch failed"; i += 2
        elif spec[i] == "--sed":
            r = sh("sed -i -E '%s' /repo/%s" % (spec[i+1], spec[i+2])); assert r.returncode == 0; i += 3
        elif spec[i] == "--tests":
            r = sh("cd /repo && cargo test --offline 2>&1 | grep -E '^test result|FAILED|panicked|error' | head -20", capture_output=True)
            print(r.stdout); i += 1
        else:
            raise SystemExit("bad arg " + spec[i])
    print(sh("git -C /repo diff --stat", capture_output=True).stdout)
    for c in checks:
        r = sh("cd /verif && ./check %s %s 2>/dev/null | grep -v '^VIOLATION' | head -%s" % (c, tier, os.environ.get("LINES", "8")), capture_output=True)
        print("== %s:\n%s" % (c, r.stdout))
finally:
    sh("git -C /repo checkout -- . && git -C /repo clean -fdq -- src tests benches")
    print("restored:", sh("git -C /repo status --porcelain --untracked-files=no", capture_output=True).stdout.strip() == "")

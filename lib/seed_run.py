#!/usr/bin/env python3
"""Runs checks against a filed seeded change: applies it to /repo, runs the checks (quick unless TIER=thorough), restores /repo.

usage: seed_run.py <seeded-dir-name> [check ids...]     default: the owning property's check
Records the outcome in /verif/seeded/<name>/meta.json under "detection".
"""
import json, os, subprocess, sys, time
name = sys.argv[1]
d = "/verif/seeded/" + name
meta = json.load(open(d + "/meta.json"))
checks = sys.argv[2:] or [meta["property"]]
tier = os.environ.get("TIER", "quick")
def sh(c, **k): return subprocess.run(c, shell=True, text=True, capture_output=True, **k)
assert sh("git -C /repo status --porcelain -- src tests Cargo.toml").stdout.strip() == "", "repo dirty"
res = meta.get("detection", {})
try:
    r = sh("git -C /repo apply %s/patch.diff" % d); assert r.returncode == 0, r.stderr
    for c in checks:
        t0 = time.time()
        r = sh("cd /verif && ./check %s %s" % (c, tier))
        lines = r.stdout.strip().splitlines()
        viol = [l for l in lines if l.startswith("VIOLATION")]
        wit = [l for l in lines if l.strip().startswith("witness")]
        res["%s %s" % (c, tier)] = dict(exit=r.returncode, violation_lines=len(viol), first_witness=(wit[0].strip() if wit else ""), wall_s=round(time.time() - t0, 1))
        print(name, c, tier, "exit", r.returncode, "|", (wit[0].strip()[:160] if wit else lines[-1][:160] if lines else ""))
finally:
    sh("git -C /repo checkout -- . && git -C /repo clean -fdq -- src tests benches")
meta["detection"] = res
json.dump(meta, open(d + "/meta.json", "w"), indent=1, ensure_ascii=False)

#!/usr/bin/env python3
"""For seeds whose outcome was recorded by lib/seed_regress.py (scratch worktrees) but not by lib/seed_run.py: copies the
regress outcome into meta.json["detection"] (the table lib/seed_index.py reads), marked as such.

usage: seed_regress_to_detection.py <seed-name> ...
"""
import json, sys
for name in sys.argv[1:]:
    p = "/verif/seeded/%s/meta.json" % name
    m = json.load(open(p))
    r = m.get("regress")
    if not r:
        print(name, "no regress record"); continue
    det = m.setdefault("detection", {})
    key = r["check"]
    if key not in det or det[key].get("exit") != r["exit"]:
        det[key] = dict(exit=r["exit"], violation_lines=None, first_witness=r.get("first_witness", ""), wall_s=None,
                        via="lib/seed_regress.py on a scratch worktree of /repo %s, /verif %s" % (r.get("repo_head"), r.get("verif_head")))
    json.dump(m, open(p, "w"), indent=1, ensure_ascii=False)
    print(name, key, r["exit"])

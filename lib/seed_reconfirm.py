#!/usr/bin/env python3
"""Re-confirms filed seeds against the current /repo HEAD (after a `fix:` commit moved HEAD and a patch was ported).

usage: seed_reconfirm.py C09-16 [...]   scratch worktree /tmp/wt-reconfirm; records `reconfirmed` in meta.json
"""
import json, os, shutil, subprocess, sys
WT = "/tmp/wt-reconfirm"
def sh(c, cwd=None, timeout=1800):
    return subprocess.run(c, shell=True, text=True, capture_output=True, cwd=cwd, timeout=timeout)
sh("git -C /repo worktree remove --force %s" % WT)
r = sh("git -C /repo worktree add --detach %s HEAD" % WT); assert r.returncode == 0, r.stderr
head = sh("git -C /repo rev-parse --short HEAD").stdout.strip()
try:
    for name in sys.argv[1:]:
        d = "/verif/seeded/" + name
        prop = name.split("-")[0]
        feat = " --features serde" if prop == "C16" else ""
        def tests():
            r = sh("cargo test --offline%s 2>&1 | grep -E '^test result|error(\\[|:)' " % feat, cwd=WT)
            p = f = 0
            for l in r.stdout.splitlines():
                w = l.split()
                if l.startswith("test result"): p += int(w[3]); f += int(w[5])
                if l.startswith("error"): f += 1000
            return p, f
        def demo():
            shutil.copy(d + "/demo.rs", WT + "/tests/demo_x.rs")
            r = sh("cargo test --offline%s --test demo_x 2>&1 | tail -30" % feat, cwd=WT)
            os.remove(WT + "/tests/demo_x.rs")
            return "test result: ok" in r.stdout, r.stdout
        base_ok, base_out = demo()
        r = sh("git apply %s/patch.diff" % d, cwd=WT)
        if r.returncode != 0:
            print(name, "PATCH DOES NOT APPLY", r.stderr[:200]); continue
        p, f = tests()
        mut_ok, mut_out = demo()
        sh("git checkout -- . && git clean -fdq -e target", cwd=WT)
        good = f == 0 and p >= 93 and base_ok and not mut_ok
        print(name, "RECONFIRMED" if good else "REJECTED", dict(tests_passed=p, tests_failed=f, demo_passes_without=base_ok, demo_fails_with=not mut_ok))
        if not good:
            print((base_out if not base_ok else mut_out)[-800:])
        m = json.load(open(d + "/meta.json"))
        m["reconfirmed"] = dict(head=head, ok=good, tests_passed=p, tests_failed=f, demo_passes_without=base_ok, demo_fails_with=not mut_ok,
                                note="patch.diff ported to this HEAD; the original against 8775d4b is patch.8775d4b.diff")
        json.dump(m, open(d + "/meta.json", "w"), indent=1, ensure_ascii=False)
finally:
    sh("git -C /repo worktree remove --force %s" % WT)
    shutil.rmtree(WT, ignore_errors=True)

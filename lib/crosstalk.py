#!/usr/bin/env python3
"""Cross-talk matrix: every seeded change against every evxmon-based check (quick tier), on scratch worktrees so that
/repo and the committed evidence are never touched.

usage: crosstalk.py [-j N] [seed-name ...]     results: seeded/<name>/meta.json["cross"], seeded/CROSSTALK.md
"""
import glob, json, os, shutil, subprocess, sys, hashlib
HERE = os.path.dirname(os.path.dirname(os.path.abspath(__file__)))
from concurrent.futures import ThreadPoolExecutor
CHECKS = ["C01", "C02", "C03", "C04", "C05", "C06", "C07", "C08", "C09", "C10", "C11", "C12", "C13", "C14"]
args = sys.argv[1:]
jobs = 4
if args[:1] == ["-j"]:
    jobs = int(args[1]); args = args[2:]
names = args or sorted(os.path.basename(d) for d in glob.glob(HERE + "/seeded/C??-*"))
def sh(c, **k): return subprocess.run(c, shell=True, text=True, capture_output=True, **k)
def one(name):
    d = HERE + "/seeded/" + name
    wt = "/tmp/evx-mut-" + name
    out = "/tmp/evx-out-" + name
    sh("git -C /repo worktree remove --force %s" % wt); shutil.rmtree(wt, ignore_errors=True)
    r = sh("git -C /repo worktree add --detach %s HEAD" % wt)
    res = {}
    try:
        r = sh("git apply %s/patch.diff" % d, cwd=wt)
        if r.returncode != 0:
            return name, {"error": "patch does not apply"}
        env = dict(os.environ, EVX_REPO=wt, EVX_OUT=out, EVX_JOBS="4")
        for c in CHECKS:
            r = subprocess.run(["./check", c, "quick"], cwd=HERE, env=env, text=True, capture_output=True)
            res[c] = r.returncode
    finally:
        sh("git -C /repo worktree remove --force %s" % wt); shutil.rmtree(wt, ignore_errors=True)
        shutil.rmtree(out, ignore_errors=True)
        tag = hashlib.sha256(wt.encode()).hexdigest()[:10]
        shutil.rmtree(HERE + "/work/monitor-" + tag, ignore_errors=True)
    m = json.load(open(d + "/meta.json")); m["cross"] = res
    json.dump(m, open(d + "/meta.json", "w"), indent=1, ensure_ascii=False)
    print(name, " ".join("%s:%s" % (c[1:], {0: ".", 1: "X", 2: "?"}.get(v, v)) for c, v in res.items()), flush=True)
    return name, res
with ThreadPoolExecutor(max_workers=jobs) as ex:
    results = dict(ex.map(one, names))
# table over everything recorded so far
rows = ["# Cross-talk: seeded change x check (quick tier)\n", "X = exit 1 (violation reported), . = exit 0 (silent), ? = inconclusive. C15/C16 legs are not part of this matrix.\n",
        "| seed | " + " | ".join(CHECKS) + " |", "|---|" + "---|" * len(CHECKS)]
for d in sorted(glob.glob(HERE + "/seeded/C??-*")):
    m = json.load(open(d + "/meta.json"))
    if "cross" in m and "error" not in m["cross"]:
        rows.append("| %s | " % os.path.basename(d) + " | ".join({0: ".", 1: "X", 2: "?"}.get(m["cross"].get(c), " ") for c in CHECKS) + " |")
open(HERE + "/seeded/CROSSTALK.md", "w").write("\n".join(rows) + "\n")

#!/usr/bin/env python3
"""Regression over the filed seeds: each seed against its owning property's quick check, on scratch worktrees of /repo
HEAD (neither /repo nor the committed evidence is touched).

usage: seed_regress.py [-j N] [seed-name ...]    results: seeded/<name>/meta.json["regress"]; summary on stdout
"""
import glob, json, os, shutil, subprocess, sys, hashlib
HERE = os.path.dirname(os.path.dirname(os.path.abspath(__file__)))
from concurrent.futures import ThreadPoolExecutor
args = sys.argv[1:]
jobs = 3
if args[:1] == ["-j"]:
    jobs = int(args[1]); args = args[2:]
names = args or sorted(os.path.basename(d) for d in glob.glob(HERE + "/seeded/C??-*"))
def sh(c, **k): return subprocess.run(c, shell=True, text=True, capture_output=True, **k)
head = sh("git -C /repo rev-parse --short HEAD").stdout.strip()
vhead = sh("git -C %s rev-parse --short HEAD" % HERE).stdout.strip()
def one(name):
    d = HERE + "/seeded/" + name
    m = json.load(open(d + "/meta.json"))
    prop = m["property"]
    wt = "/tmp/evx-reg-" + name
    out = "/tmp/evx-regout-" + name
    sh("git -C /repo worktree remove --force %s" % wt); shutil.rmtree(wt, ignore_errors=True)
    sh("git -C /repo worktree add --detach %s HEAD" % wt)
    rc, wit = None, ""
    try:
        r = sh("git apply %s/patch.diff" % d, cwd=wt)
        if r.returncode != 0:
            rc = "patch does not apply"
        else:
            env = dict(os.environ, EVX_REPO=wt, EVX_OUT=out, EVX_JOBS="5")
            r = subprocess.run(["./check", prop, "quick"], cwd=HERE, env=env, text=True, capture_output=True)
            rc = r.returncode
            w = [l.strip() for l in r.stdout.splitlines() if l.strip().startswith("witness")]
            wit = w[0][:200] if w else ""
    finally:
        sh("git -C /repo worktree remove --force %s" % wt); shutil.rmtree(wt, ignore_errors=True)
        shutil.rmtree(out, ignore_errors=True)
        tag = hashlib.sha256(wt.encode()).hexdigest()[:10]
        for sub in glob.glob(HERE + "/work/*-" + tag):
            shutil.rmtree(sub, ignore_errors=True)
    m = json.load(open(d + "/meta.json"))
    m["regress"] = dict(repo_head=head, verif_head=vhead, check=prop + " quick", exit=rc, first_witness=wit)
    json.dump(m, open(d + "/meta.json", "w"), indent=1, ensure_ascii=False)
    print(name, rc, wit[:120], flush=True)
    return name, rc
with ThreadPoolExecutor(max_workers=jobs) as ex:
    results = dict(ex.map(one, names))
bad = sorted(n for n, rc in results.items() if rc != 1)
print("REGRESSION: %d seeds, %d caught; not caught: %s" % (len(results), len(results) - len(bad), " ".join(bad)))

#!/usr/bin/env python3
"""Regenerates /verif/MANIFEST.json from the table below (kept valid against /root/.vp/MANIFEST.schema.json)."""
import json, os
HERE = os.path.dirname(os.path.dirname(os.path.abspath(__file__)))
props = [json.loads(l) for l in open(os.path.join(HERE, "properties.jsonl"))]

HELD = "Held-on-what-was-executed (evidence lists executions, distinct cases and what the monitors observed); not a proof."
CHECKS = {
 "C01": ("runtime monitoring: panic monitor (panic hook + catch_unwind, worker-death attribution by the driver) over depth stress, builtin/operator matrices, exhaustive token sequences through the whole API surface, hostile strings through 48 entry points; release and dev (overflow-checks, debug-assertions) profiles; H1 parser-precondition hook; CLI binary in the thorough tier",
         "Every call of the workload into the public API returned Ok or Err without unwinding or aborting, in both build profiles. " + HELD,
         "8 MiB stack assumed (Linux main-thread default); allocation failure excluded; user functions do not panic.", "DESIGN.md §4 C01"),
 "C02": ("runtime monitor: differential oracle (reference Pratt parser from the README table) over exhaustive token sequences, exhaustive ASTs <= 3 operators x parenthesisations, random ASTs; H1 hook for parser-state coverage",
         "Every well-formed rendering produced by the workload is precompiled by the real parser and its tree compared structurally with the reference AST. " + HELD,
         "Trusts the reference lexer/parser (self-checked: render -> lex -> parse must give back every generated AST; README examples).", "DESIGN.md §4 C02"),
 "C03": ("runtime monitor: differential oracle (i128/f64 reference operator table) over a complete operator x edge-value matrix plus seeded random operands",
         "Every operator application produced by the workload is compared bit-for-bit (values) or by error class (errors) with an independent reference table, through variable, literal and op-assignment routes. " + HELD,
         "Trusts the reference table (self-checked against README facts) and libm's powf/fmod (same functions on both sides).", "DESIGN.md §4 C03"),
 "C04": ("runtime monitor: history + executable model (abstract typed map) — every context operation applied to a real HashMapContext and to the model, complete observable state compared after every step; BFS over (abstract state, last-op kind) x all operations, plus long random histories with live clones",
         "After every step of every explored history the return value and the complete observable state of the context (and of every clone left behind) equal the model's. " + HELD,
         "Trusts the 20-line map model and the reference evaluator for expression steps; BFS complete only within its key budget.", "DESIGN.md §4 C04"),
 "C05": ("runtime monitor: reference parser + reference evaluator over exhaustive separator skeletons, exhaustive token sequences with separators, random sequence programs; effects observed through a RecordingContext",
         "Tree shape, value, final context and effect order of every well-formed sequence program in the workload are compared with the reference. " + HELD,
         "Trusts the reference parser/evaluator (self-checked against README scripts).", "DESIGN.md §4 C05"),
 "C06": ("runtime monitor: round-trip oracle through the harness's own renderers (quote, decimal/hex, 8 float renderings) and tree-constant extraction for embedded literals; reference word classifier for identifiers",
         "Every literal produced by the workload evaluates / precompiles to exactly the value it was rendered from; illegal escapes and truncated literals are errors; non-literal words are assignable identifiers. " + HELD,
         "Trusts Rust's shortest-round-trip float formatting (every rendering is parsed back by the harness first).", "DESIGN.md §4 C06"),
 "C07": ("runtime monitor: metamorphic oracle (two separator plans of one token sequence must give equal trees / equal errors), plans validated by the reference lexer; exhaustive short token sequences + random programs",
         "For every token sequence of the workload, the canonical rendering and k random separator plans (25 whitespace characters, block/line comments, empty gaps where no fusion is possible) precompile identically. " + HELD,
         "Implementation against implementation; trusts the reference lexer only to reject plans that would fuse tokens.", "DESIGN.md §4 C07"),
 "C08": ("runtime monitor: event-log oracle (RecordingContext + recording user functions vs reference interpreter) and online trace specification on the H2 evaluation-schedule hook",
         "For every program of the workload the triple (result, final context, ordered effect log) equals the reference interpreter's and the hooked evaluation schedule satisfies the left-to-right / exactly-once / stop-at-first-failure specification. " + HELD,
         "Trusts the reference interpreter; the hook only adds observations (monitor degrades to boundary-only if it is silent).", "DESIGN.md §4 C08, §3.4"),
 "C09": ("runtime monitor: lookup-model oracle over the complete configuration matrix (names x context kinds x switch x user function x variable x call forms x entry points) with callee identification through recording functions",
         "Every cell of the finite configuration matrix resolves as the model says: callee, argument shape, error kind and name. " + HELD,
         "Trusts the reference evaluator's function lookup (user function first, then builtins unless disabled).", "DESIGN.md §4 C09"),
 "C10": ("runtime monitor: differential oracle (49 reference builtins from the README table) over the complete names x argument-shape matrix, unit-consistency sweep for len/substring, type-directed random arguments",
         "Every builtin call in the workload is compared with its reference (bit-exact value / error where documented; documented-silent points accepted). " + HELD,
         "Trusts std's f64 functions and Unicode tables (same on both sides); the wiring (which function, argument order, conversions, arity/type checks) is what is checked.", "DESIGN.md §4 C10"),
 "C11": ("runtime monitor: metamorphic oracle (immutable vs mutable evaluation of the same program on clones of one context, projected through the reference) + context-unchanged check + H2 prefix rule",
         "For every (program, context) pair of the workload the read-only result equals the projected mutable result, the context is observably unchanged and never asked to store, and contexts without storage reject assignments. " + HELD,
         "Trusts the reference only to locate the first applied assignment; the rest is implementation against implementation.", "DESIGN.md §4 C11"),
 "C12": ("runtime monitor: metamorphic oracle — all 24 string-level and 24 tree-level entry points called on clones of one context and compared with the projection of the untyped evaluation",
         "For every (string, context) pair of the workload each typed / precompiled / context-free entry point returns exactly the projected untyped result and leaves the same final context. " + HELD,
         "Implementation against implementation; the projection table is 7 match statements in the harness.", "DESIGN.md §4 C12"),
 "C13": ("runtime monitor: reference recogniser classification (ill-formed) vs real parser + arity table + confirming evaluation in 12 probe contexts, over exhaustive token sequences and damaged programs",
         "Every sequence the reference classifies ill-formed is checked to be rejected, or to have a wrong-arity node, or at least to evaluate in none of the probe contexts; parenthesis balance errors are checked both ways. " + HELD,
         "Trusts the reference recogniser; ill-formed inputs accepted with correct arity that evaluate nowhere are counted, not reported.", "DESIGN.md §4 C13"),
 "C14": ("runtime monitor: occurrence-list oracle from the generating AST for the 10 identifier iterators + renaming metamorphic test + unknown-identifier containment",
         "For every program of the workload the iterators list exactly the identifier occurrences in source order by class, and consistent renaming through the mutable iterators and the context leaves the result unchanged. " + HELD,
         "Trusts the reference parser (C02) for the AST and pre-order = source order for this grammar.", "DESIGN.md §4 C14"),
 "C15": ("runtime monitoring + sanitizers: concurrent-equals-sequential result oracle under a hostile thread workload (barrier start, shared Arc<Node>/contexts, delay injection in user code; cold-start processes whose first use of the library is concurrent, per-thread clones of a stateful context), Miri (UB and data-race interpreter, many seeds) and ThreadSanitizer (thorough); Send + Sync decided by the type checker on an assertion crate",
         "Every result obtained by any thread for any shared (tree, context) pair equalled the sequential result; Miri/TSan reported no race or UB on the schedules that occurred; the 8 public types are Send + Sync. " + HELD,
         "Race detectors see only schedules that occurred; the static part is rustc's verdict.", "DESIGN.md §4 C15"),
 "C16": ("runtime monitoring: serializer round-trip oracle (ron 0.8.1 and serde's StrDeserializer) for expression strings vs build_operator_tree (also for a blank-variant sibling right after its twin, against a thread without history) and for HashMapContexts reachable through the API; the serde trait bounds are a compile-time precondition of the harness crate",
         "Every expression string of the workload deserializes to the tree / error message precompilation gives; every context round-trips with identical variables (floats bit-exact), builtin switch and no functions. " + HELD,
         "Trusts ron as transport (strings/values ron itself cannot carry are skipped after a transport self-check); built with cargo +1.81.0.", "DESIGN.md §4 C16"),
}
NOT_YET = "check under construction in this session (see DESIGN.md §4); will be claimed once its monitor is committed"

def chk(pid):
    tech, text, note, ref = CHECKS[pid]
    return {"property_id": pid, "quick_cmd": "./check %s quick" % pid, "thorough_cmd": "./check %s thorough" % pid,
            "evidence_file": "/verif/evidence/%s.json" % pid, "replay_cmd_template": "./check %s --replay {path}" % pid,
            "engine": {"C15": "evx-c15", "C16": "evx-c16"}.get(pid, "evxmon"), "level_claimed": {"category": "exploration", "text": text, "design_ref": ref},
            "level_note": note, "technique": tech}

claimed = sorted(CHECKS)
man = {"version": 1,
       "setup_cmd": "./check setup",
       "hooks": {"guard": "cargo feature verif-hooks",
                 "enable": "the harness crate /verif/monitor depends on evalexpr = { path = \"/repo\", features = [\"verif-hooks\"] }",
                 "baseline_off_cmd": "cd /repo && cargo test --workspace --no-fail-fast --offline",
                 "source_commits": ["283c553", "ebe8483", "bb09e62"], "add_only": True},
       "engines": [{"name": "evxmon", "path": "/verif/monitor", "serves_properties": [c for c in claimed if c not in ("C15", "C16")],
                    "kind_free_text": "Rust harness (no external crates): reference lexer/parser/evaluator/builtins, recording contexts, panic monitor, hook sinks; sharded over worker processes by /verif/check (python3 driver: merging, known findings, evidence, replay)"},
                   {"name": "evx-c15", "path": "/verif/c15", "serves_properties": ["C15"], "kind_free_text": "thread stress binary run natively, under cargo +nightly miri (many seeds) and under ThreadSanitizer (-Zbuild-std); /verif/sendsync holds the compile-time Send+Sync assertions"},
                   {"name": "evx-c16", "path": "/verif/c16", "serves_properties": ["C16"], "kind_free_text": "serde/ron round-trip binary built with cargo +1.81.0 against evalexpr[serde]"}],
       "checks": [chk(p) for p in claimed],
       "notes": "All checks: ./check <id> quick|thorough; VERIF_SEED selects the random part. Known findings: /verif/known_findings.json (all eleven genuine defects found were repaired by `fix:` commits in /repo, so it holds only `fixed` entries).",
       "not_applicable": [{"property_id": p["id"], "reason": NOT_YET} for p in props if p["id"] not in CHECKS]}
json.dump(man, open(os.path.join(HERE, "MANIFEST.json"), "w"), indent=1)
print("claimed:", claimed)

#!/usr/bin/env python3
"""Regenerates /verif/MANIFEST.json from the table below (kept valid against /root/.vp/MANIFEST.schema.json)."""
import json, os
HERE = os.path.dirname(os.path.dirname(os.path.abspath(__file__)))
props = [json.loads(l) for l in open(os.path.join(HERE, "properties.jsonl"))]

HELD = "Held-on-what-was-executed (evidence lists executions, distinct cases and what the monitors observed); not a proof."
CHECKS = {
 "C02": ("runtime monitor: differential oracle (reference Pratt parser from the README table) over exhaustive token sequences, exhaustive ASTs <= 3 operators x parenthesisations, random ASTs; H1 hook for parser-state coverage",
         "Every well-formed rendering produced by the workload is precompiled by the real parser and its tree compared structurally with the reference AST. " + HELD,
         "Trusts the reference lexer/parser (self-checked: render -> lex -> parse must give back every generated AST; README examples).", "DESIGN.md §4 C02"),
 "C03": ("runtime monitor: differential oracle (i128/f64 reference operator table) over a complete operator x edge-value matrix plus seeded random operands",
         "Every operator application produced by the workload is compared bit-for-bit (values) or by error class (errors) with an independent reference table, through variable, literal and op-assignment routes. " + HELD,
         "Trusts the reference table (self-checked against README facts) and libm's powf/fmod (same functions on both sides).", "DESIGN.md §4 C03"),
 "C05": ("runtime monitor: reference parser + reference evaluator over exhaustive separator skeletons, exhaustive token sequences with separators, random sequence programs; effects observed through a RecordingContext",
         "Tree shape, value, final context and effect order of every well-formed sequence program in the workload are compared with the reference. " + HELD,
         "Trusts the reference parser/evaluator (self-checked against README scripts).", "DESIGN.md §4 C05"),
 "C08": ("runtime monitor: event-log oracle (RecordingContext + recording user functions vs reference interpreter) and online trace specification on the H2 evaluation-schedule hook",
         "For every program of the workload the triple (result, final context, ordered effect log) equals the reference interpreter's and the hooked evaluation schedule satisfies the left-to-right / exactly-once / stop-at-first-failure specification. " + HELD,
         "Trusts the reference interpreter; the hook only adds observations (monitor degrades to boundary-only if it is silent).", "DESIGN.md §4 C08, §3.4"),
 "C10": ("runtime monitor: differential oracle (49 reference builtins from the README table) over the complete names x argument-shape matrix, unit-consistency sweep for len/substring, type-directed random arguments",
         "Every builtin call in the workload is compared with its reference (bit-exact value / error where documented; documented-silent points accepted). " + HELD,
         "Trusts std's f64 functions and Unicode tables (same on both sides); the wiring (which function, argument order, conversions, arity/type checks) is what is checked.", "DESIGN.md §4 C10"),
 "C11": ("runtime monitor: metamorphic oracle (immutable vs mutable evaluation of the same program on clones of one context, projected through the reference) + context-unchanged check + H2 prefix rule",
         "For every (program, context) pair of the workload the read-only result equals the projected mutable result, the context is observably unchanged and never asked to store, and contexts without storage reject assignments. " + HELD,
         "Trusts the reference only to locate the first applied assignment; the rest is implementation against implementation.", "DESIGN.md §4 C11"),
 "C13": ("runtime monitor: reference recogniser classification (ill-formed) vs real parser + arity table + confirming evaluation in 12 probe contexts, over exhaustive token sequences and damaged programs",
         "Every sequence the reference classifies ill-formed is checked to be rejected, or to have a wrong-arity node, or at least to evaluate in none of the probe contexts; parenthesis balance errors are checked both ways. " + HELD,
         "Trusts the reference recogniser; ill-formed inputs accepted with correct arity that evaluate nowhere are counted, not reported.", "DESIGN.md §4 C13"),
}
NOT_YET = "check under construction in this session (see DESIGN.md §4); will be claimed once its monitor is committed"

def chk(pid):
    tech, text, note, ref = CHECKS[pid]
    return {"property_id": pid, "quick_cmd": "./check %s quick" % pid, "thorough_cmd": "./check %s thorough" % pid,
            "evidence_file": "/verif/evidence/%s.json" % pid, "replay_cmd_template": "./check %s --replay {path}" % pid,
            "engine": "evxmon", "level_claimed": {"category": "exploration", "text": text, "design_ref": ref},
            "level_note": note, "technique": tech}

claimed = sorted(CHECKS)
man = {"version": 1,
       "setup_cmd": "./check setup",
       "hooks": {"guard": "cargo feature verif-hooks",
                 "enable": "the harness crate /verif/monitor depends on evalexpr = { path = \"/repo\", features = [\"verif-hooks\"] }",
                 "baseline_off_cmd": "cd /repo && cargo test --workspace --no-fail-fast --offline",
                 "source_commits": ["283c553", "ebe8483", "bb09e62"], "add_only": True},
       "engines": [{"name": "evxmon", "path": "/verif/monitor", "serves_properties": claimed,
                    "kind_free_text": "Rust harness (no external crates): reference lexer/parser/evaluator/builtins, recording contexts, panic monitor, hook sinks; sharded over worker processes by /verif/check (python3 driver: merging, known findings, evidence, replay)"}],
       "checks": [chk(p) for p in claimed],
       "notes": "All checks: ./check <id> quick|thorough; VERIF_SEED selects the random part. Known findings: /verif/known_findings.json (all ten defects found on the pinned tree were repaired by `fix:` commits in /repo, so it holds only `fixed` entries).",
       "not_applicable": [{"property_id": p["id"], "reason": NOT_YET} for p in props if p["id"] not in CHECKS]}
json.dump(man, open(os.path.join(HERE, "MANIFEST.json"), "w"), indent=1)
print("claimed:", claimed)

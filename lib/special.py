"""Property-specific legs that do not run inside the evxmon workers: other toolchains (C16), sanitizers and the
Miri interpreter (C15, C01), compile-time facts (Send/Sync, serde bounds), the CLI binary (C01)."""
import hashlib
import json
import os
import re
import subprocess
import time


def _sh(cmd, cwd=None, env=None, timeout=3600):
    try:
        r = subprocess.run(cmd, cwd=cwd, env=env, stdout=subprocess.PIPE, stderr=subprocess.PIPE, text=True,
                           timeout=timeout, errors="replace")
        return r.returncode, r.stdout, r.stderr
    except subprocess.TimeoutExpired as e:
        return None, (e.stdout or b"").decode(errors="replace") if isinstance(e.stdout, bytes) else (e.stdout or ""), "TIMEOUT"


def _repo_hash(repo):
    h = hashlib.sha256()
    paths = [os.path.join(repo, "Cargo.toml")]
    for root, dirs, files in os.walk(os.path.join(repo, "src")):
        dirs.sort()
        for f in sorted(files):
            paths.append(os.path.join(root, f))
    for p in paths:
        try:
            with open(p, "rb") as fh:
                h.update(p.encode())
                h.update(fh.read())
        except OSError:
            pass
    return h.hexdigest()


def _crate_dir(E, name):
    """Harness crate directory; with EVX_REPO set, a rendered copy pointing at that tree."""
    src = os.path.join(E["HERE"], name)
    if E["REPO"] == "/repo":
        return src
    tag = hashlib.sha256(E["REPO"].encode()).hexdigest()[:10]
    dst = os.path.join(E["HERE"], "work", "%s-%s" % (name, tag))
    os.makedirs(dst, exist_ok=True)
    man = open(os.path.join(src, "Cargo.toml")).read().replace('path = "/repo"', 'path = "%s"' % E["REPO"])
    open(os.path.join(dst, "Cargo.toml"), "w").write(man)
    link = os.path.join(dst, "src")
    if not os.path.islink(link):
        os.symlink(os.path.join(src, "src"), link)
    return dst


def _cargo(E, cdir, args, target_dir, toolchain=None, extra_env=None, clean_pkg=True, timeout=3600, prog_args=None):
    """cargo build/miri with a repo-hash stamp per target dir (forces evalexpr to be rebuilt when sources changed
    even if mtimes went backwards)."""
    env = dict(E["ENV"])
    if extra_env:
        env.update(extra_env)
    tdir = os.path.join(cdir, target_dir)
    os.makedirs(tdir, exist_ok=True)
    stamp = os.path.join(tdir, "repo.stamp")
    cur = _repo_hash(E["REPO"])
    old = open(stamp).read().strip() if os.path.exists(stamp) else ""
    tc = [toolchain] if toolchain else []
    if old and old != cur and clean_pkg:
        _sh(["cargo"] + tc + ["clean", "--offline", "-p", "evalexpr", "--target-dir", tdir], cwd=cdir, env=env)
    tail = (["--"] + [str(a) for a in prog_args]) if prog_args else []
    rc, out, err = _sh(["cargo"] + tc + args + ["--target-dir", tdir] + tail, cwd=cdir, env=env, timeout=timeout)
    if rc == 0:
        open(stamp, "w").write(cur)
    return rc, out, err


def _last_json(out):
    for line in reversed(out.strip().splitlines()):
        line = line.strip()
        if line.startswith("{") and line.endswith("}"):
            try:
                return json.loads(line)
            except Exception:  # noqa: BLE001
                return None
    return None


def _viol(rule, inp, expected, observed, **kw):
    d = dict(rule=rule, phase=None, idx=None, input=inp, expected=expected, observed=observed[-1800:])
    d.update(kw)
    return d


# ----------------------------------------------------------------------------------------------------- C15

def _sendsync(E, res):
    cdir = _crate_dir(E, "sendsync")
    rc, out, err = _cargo(E, cdir, ["build", "--offline"], "target")
    if rc != 0:
        if re.search(r"cannot be (sent|shared) between threads safely|`Send`|`Sync`", err):
            src = open(os.path.join(E["HERE"], "sendsync", "src", "main.rs")).read().splitlines()
            culprits = []
            for m in re.finditer(r"src/main\.rs:(\d+):", err):
                ln = int(m.group(1))
                # the enclosing `fn <type>_is_send_sync`
                for k in range(ln - 1, -1, -1):
                    mm = re.match(r"fn (\w+)_is_send_sync", src[k]) if k < len(src) else None
                    if mm:
                        if mm.group(1) not in culprits:
                            culprits.append(mm.group(1))
                        break
            first = next((l for l in err.splitlines() if l.startswith("error")), "error")
            for c in culprits or ["?"]:
                res["violations"].append(_viol("send-sync/static", "type `%s` (compile-time assertion T: Send + Sync in /verif/sendsync)" % c,
                                               "T is Send + Sync", first + " …" + err[-900:], leg="sendsync"))
        else:
            res["inconclusive"].append("sendsync crate does not build (not a Send/Sync diagnostic): " + err[-400:])
        return
    rc, out, err = _sh([os.path.join(cdir, "target", "debug", "evx-sendsync")])
    if rc != 0:
        res["violations"].append(_viol("send-sync/runtime", "tree and contexts moved to another thread", "evaluates to 3", out[-300:] + err[-600:], leg="sendsync"))
    else:
        res["coverage"]["send_sync_static"] = out.strip()
        res["evaluations"] += 3


def _c15(E, tier, seed, res):
    _sendsync(E, res)
    cdir = _crate_dir(E, "c15")
    cov = res["coverage"]
    # native stress
    rc, out, err = _cargo(E, cdir, ["build", "--offline", "--release"], "target")
    if rc != 0:
        res["inconclusive"].append("c15 crate does not build: " + err[-500:])
        return
    binary = os.path.join(cdir, "target", "release", "evx-c15")
    nproc, rounds, threads = (6, 150, 16) if tier == "quick" else (16, 1000, 32)
    procs = [subprocess.Popen([binary, str(rounds), str(threads), "24", str(seed * 1000 + i)], stdout=subprocess.PIPE,
                              stderr=subprocess.PIPE, text=True, errors="replace") for i in range(nproc)]
    inter, evals, events = 0, 0, 0
    for i, p in enumerate(procs):
        try:
            out, err = p.communicate(timeout=7200)
        except subprocess.TimeoutExpired:
            p.kill()
            res["inconclusive"].append("native concurrency stress: watchdog fired")
            continue
        j = _last_json(out)
        if j is None:
            if p.returncode and p.returncode < 0 or "panicked" in err:
                res["violations"].append(_viol("concurrent/worker-died", "evx-c15 %d %d 24 %d" % (rounds, threads, seed * 1000 + i),
                                               "all threads finish", "exit %s: %s" % (p.returncode, err[-600:]), leg="native",
                                               cmd=[rounds, threads, 24, seed * 1000 + i]))
            else:
                res["inconclusive"].append("native concurrency stress: no summary (exit %s) %s" % (p.returncode, err[-200:]))
            continue
        evals += j["evaluations"]
        inter += j["distinct_interleavings"]
        events += j["slow_context_events"]
        if len(res["samples"]) < 4:
            res["samples"] += ["interleaving (thread ids in global order of SlowContext calls): " + s for s in j["interleaving_samples"][:2]]
        if j["mismatches"] > 0 or p.returncode != 0:
            lines = [l for l in out.splitlines() if l.startswith("MISMATCH")]
            res["violations"].append(_viol("concurrent/result-differs-from-sequential",
                                           "evx-c15 %d %d 24 %d (shared Arc<Node> x shared contexts, %d threads)" % (rounds, threads, seed * 1000 + i, threads),
                                           "every concurrent result equals the sequential one", "\n".join(lines[:4]) or out[-400:],
                                           leg="native", cmd=[rounds, threads, 24, seed * 1000 + i]))
    # cold starts: short processes whose very first use of the library happens on all threads at once (lazily initialised
    # tables are initialised under contention), followed by per-thread clones of one context with a stateful function
    ncold, cthreads = (32, 16) if tier == "quick" else (320, 32)
    cold_done = 0
    for base in range(0, ncold, 8):
        cprocs = [subprocess.Popen([binary, "cold", str(cthreads), str(seed * 1000 + base + i)], stdout=subprocess.PIPE,
                                   stderr=subprocess.PIPE, text=True, errors="replace") for i in range(min(8, ncold - base))]
        for i, p in enumerate(cprocs):
            try:
                out, err = p.communicate(timeout=600)
            except subprocess.TimeoutExpired:
                p.kill()
                res["inconclusive"].append("cold-start leg: watchdog fired")
                continue
            j = _last_json(out)
            if j is None:
                if p.returncode and p.returncode < 0 or "panicked" in err:
                    res["violations"].append(_viol("concurrent/worker-died", "evx-c15 cold %d %d" % (cthreads, seed * 1000 + base + i),
                                                   "all threads finish", "exit %s: %s" % (p.returncode, err[-600:]), leg="native",
                                                   cmd=["cold", cthreads, seed * 1000 + base + i]))
                else:
                    res["inconclusive"].append("cold-start leg: no summary (exit %s) %s" % (p.returncode, err[-200:]))
                continue
            cold_done += 1
            evals += j["evaluations"]
            if j["mismatches"] > 0 or p.returncode != 0:
                lines = [l for l in out.splitlines() if l.startswith("MISMATCH")]
                res["violations"].append(_viol("concurrent/cold-start-or-cloned-context-differs-from-sequential",
                                               "evx-c15 cold %d %d (first use of the library on %d threads at once; then per-thread clones of one context)" % (cthreads, seed * 1000 + base + i, cthreads),
                                               "every concurrent result equals the sequential one", "\n".join(lines[:4]) or out[-400:],
                                               leg="native", cmd=["cold", cthreads, seed * 1000 + base + i]))
    cov["cold_start_processes"] = cold_done
    cov["native_evaluations"] = evals
    cov["distinct_interleaving_signatures"] = inter
    cov["slow_context_events_logged"] = events
    res["evaluations"] += evals
    res["distinct"] += inter
    # Miri: UB + data-race interpreter, one schedule per seed
    nseeds = 6 if tier == "quick" else 64
    lo = (seed % 1000) * nseeds
    t0 = time.time()
    done = 0
    def miri_batch(ab):
        return _cargo(E, cdir, ["miri", "run", "--offline"], "target/miri", toolchain="+nightly",
                      extra_env={"MIRIFLAGS": "-Zmiri-many-seeds=%d..%d" % ab}, clean_pkg=False, timeout=3000,
                      prog_args=[1, 3, 4, seed] if tier == "quick" else [1, 4, 6, seed])
    # one interpreter is single-threaded: the quick tier runs its 6 seeds in one batch, the thorough tier its first batch
    # alone (it builds) and the other seven side by side
    size = 16 if tier == "quick" else 8
    batches = [(a, min(a + size, lo + nseeds)) for a in range(lo, lo + nseeds, size)]
    results = [miri_batch(batches[0])]
    if len(batches) > 1:
        from concurrent.futures import ThreadPoolExecutor
        with ThreadPoolExecutor(max_workers=7) as ex:
            results += list(ex.map(miri_batch, batches[1:]))
    for (a, b), (rc, out, err) in zip(batches, results):
        if rc is None:
            res["inconclusive"].append("miri leg: watchdog fired")
            break
        text = out + "\n" + err
        summaries = [l for l in out.splitlines() if l.startswith("{")]
        done += len(summaries)
        if rc != 0:
            if re.search(r"Undefined Behavior|Data race detected|data race|error: deadlock", text):
                m = re.search(r"(error: (?:Undefined Behavior|deadlock).*?)(?:\n\n|\Z)", text, re.S)
                res["violations"].append(_viol("concurrent/miri", "cargo +nightly miri run (seeds %d..%d) of /verif/c15" % (a, b),
                                               "no undefined behaviour, no data race, no deadlock", (m.group(1) if m else text)[-1500:], leg="miri", seeds=[a, b]))
            elif "MISMATCH" in text:
                res["violations"].append(_viol("concurrent/result-differs-from-sequential", "under miri, seeds %d..%d" % (a, b),
                                               "every concurrent result equals the sequential one",
                                               "\n".join([l for l in text.splitlines() if "MISMATCH" in l][:4]), leg="miri", seeds=[a, b]))
            else:
                res["inconclusive"].append("miri leg failed without a UB / race report: " + text[-400:])
                break
    cov["miri_seeds_run"] = done
    cov["miri_wall_s"] = round(time.time() - t0, 1)
    res["evaluations"] += done * 40
    # ThreadSanitizer (thorough only)
    if tier == "thorough":
        rc, out, err = _cargo(E, cdir, ["build", "--offline", "--release", "-Zbuild-std", "--target", "x86_64-unknown-linux-gnu"],
                              "target/tsan", toolchain="+nightly", extra_env={"RUSTFLAGS": "-Zsanitizer=thread"}, clean_pkg=False)
        if rc != 0:
            res["inconclusive"].append("tsan build failed: " + err[-400:])
        else:
            tb = os.path.join(cdir, "target", "tsan", "x86_64-unknown-linux-gnu", "release", "evx-c15")
            env = dict(E["ENV"], TSAN_OPTIONS="halt_on_error=1 exitcode=66")
            rc, out, err = _sh([tb, "400", "16", "24", str(seed)], env=env, timeout=3000)
            j = _last_json(out)
            if rc == 66 or "ThreadSanitizer" in err:
                res["violations"].append(_viol("concurrent/tsan", "ThreadSanitizer build of /verif/c15, 400 rounds x 16 threads",
                                               "no data race", err[-1500:], leg="tsan"))
            elif rc != 0:
                res["violations"].append(_viol("concurrent/result-differs-from-sequential", "under ThreadSanitizer", "equal results",
                                               out[-600:], leg="tsan"))
            elif j:
                cov["tsan_evaluations"] = j["evaluations"]
                res["evaluations"] += j["evaluations"]


# ----------------------------------------------------------------------------------------------------- C16

def _c16(E, tier, seed, res):
    cdir = _crate_dir(E, "c16")
    try:
        lock = open(os.path.join(E["REPO"], "Cargo.lock")).read()
        open(os.path.join(cdir, "Cargo.lock"), "w").write(lock)
    except OSError:
        pass
    rc, out, err = _cargo(E, cdir, ["build", "--offline", "--release"], "target", toolchain="+1.81.0")
    if rc != 0:
        if re.search(r"E0277|E0599", err) and re.search(r"Serialize|Deserialize", err) and "evx-c16" in err:
            first = "\n".join([l for l in err.splitlines() if l.startswith("error")][:3])
            res["violations"].append(_viol("serde/does-not-compile",
                                           "HashMapContext<DefaultNumericTypes> / Node with the serde feature (harness crate /verif/c16)",
                                           "implements Serialize + DeserializeOwned", first + "\n" + err[-900:], leg="c16-build"))
        else:
            res["inconclusive"].append("c16 crate does not build: " + err[-500:])
        return
    binary = os.path.join(cdir, "target", "release", "evx-c16")
    nproc, ns, nc = (8, 25000, 4000) if tier == "quick" else (16, 600000, 120000)
    procs = [subprocess.Popen([binary, str(ns), str(nc), str(seed * 1000 + i)], stdout=subprocess.PIPE, stderr=subprocess.PIPE,
                              text=True, errors="replace") for i in range(nproc)]
    cov = res["coverage"]
    tot = dict(strings=0, trees_ok=0, trees_err=0, blank_variant_siblings=0, contexts=0, contexts_round_tripped=0)
    for i, p in enumerate(procs):
        try:
            out, err = p.communicate(timeout=3000)
        except subprocess.TimeoutExpired:
            p.kill()
            res["inconclusive"].append("c16: watchdog fired")
            continue
        j = _last_json(out)
        cmd = [ns, nc, seed * 1000 + i]
        if j is None:
            if "panicked" in err or (p.returncode or 0) < 0:
                res["violations"].append(_viol("serde/panic", "evx-c16 %d %d %d" % tuple(cmd), "round trips return", err[-800:], leg="c16", cmd=cmd))
            else:
                res["inconclusive"].append("c16: no summary (exit %s) %s" % (p.returncode, err[-200:]))
            continue
        for k in tot:
            tot[k] += j[k]
        res["evaluations"] += j["evaluations"]
        res["distinct"] += j["distinct"]
        if len(res["samples"]) < 8:
            res["samples"] += j["samples"][:4]
        if j["mismatches"] > 0:
            for l in [l for l in out.splitlines() if l.startswith("MISMATCH")][:6]:
                body = l[len("MISMATCH "):]
                rule = "serde/" + body.split(":", 1)[0].strip()
                res["violations"].append(_viol(rule, body[:1500], "deserialize(serialize(x)) behaves like x", body[:1500], leg="c16", cmd=cmd))
    cov.update({"serde_" + k: v for k, v in tot.items()})


# ----------------------------------------------------------------------------------------------------- C01 extras

def _c01(E, tier, seed, res):
    """thorough only: the CLI binary on hostile arguments, and a sample of the API-surface workload under Miri"""
    if tier != "thorough":
        return
    cdir = E["REPO"]
    tdir = os.path.join(E["HERE"], "work", "cli-target")
    rc, out, err = _sh(["cargo", "build", "--offline", "--bin", "evalexpr", "--target-dir", tdir], cwd=cdir, env=E["ENV"])
    if rc != 0:
        res["inconclusive"].append("CLI binary does not build: " + err[-300:])
        return
    binary = os.path.join(tdir, "debug", "evalexpr")
    import random
    rnd = random.Random(seed)
    soup = ["+", "-", "*", "/", "%", "^", "(", ")", ",", ";", "=", "!", "<", ">", "&", "|", "\"", "\\", "/*", "//", " ", "0", "9",
            "e", "x", ".", "a", "f", "true", "math::", "shl", "shr", "len", "str::substring", "äb", "😀", "9223372036854775807",
            "-9223372036854775808", "64", "math::abs", "min", "max", "1e999", "0x"]
    ran = 0
    for i in range(300):
        n = rnd.randint(1, 12)
        args = [rnd.choice(soup) for _ in range(n)]
        rc, out, err = _sh([binary] + args, timeout=60)
        ran += 1
        if rc is None:
            res["inconclusive"].append("CLI: timeout on %r" % (args,))
            continue
        if rc not in (0, 1) or "panicked" in err:
            res["violations"].append(_viol("panic", "CLI: evalexpr " + " ".join(args), "exit status 0 or 1, no panic",
                                           "exit %s: %s" % (rc, err[-500:]), leg="cli", cmd=args))
    res["coverage"]["cli_invocations"] = ran
    res["evaluations"] += ran


def build_failure_verdict(prop, cargo_output):
    """A harness build failure is an infrastructure failure unless a property says otherwise."""
    return None


def run(prop, tier, seed, workdir, E):
    res = dict(violations=[], inconclusive=[], evaluations=0, distinct=0, coverage={}, samples=[])
    if prop == "C15":
        _c15(E, tier, seed, res)
    elif prop == "C16":
        _c16(E, tier, seed, res)
    elif prop == "C01":
        _c01(E, tier, seed, res)
    else:
        return None
    return res


def replay(prop, w, E):
    """Special-leg witnesses are replayed by re-running the whole leg at the recorded tier and seed."""
    res = dict(violations=[], inconclusive=[], evaluations=0, distinct=0, coverage={}, samples=[])
    if prop == "C15":
        _c15(E, w.get("tier", "quick"), w.get("seed", 1), res)
    elif prop == "C16":
        _c16(E, w.get("tier", "quick"), w.get("seed", 1), res)
    elif prop == "C01":
        _c01(E, "thorough", w.get("seed", 1), res)
    else:
        print("INCONCLUSIVE this witness has no replay procedure")
        return 2
    hits = [v for v in res["violations"] if v["rule"] == w.get("rule")]
    if hits:
        v = hits[0]
        print("replay [%s] %s\n   expected %s\n   observed %s" % (v["rule"], v["input"][:400], v["expected"], v["observed"][:600]))
        print("VIOLATION property=%s replay=%s" % (prop, w.get("replay_path", "")))
        return 1
    if res["inconclusive"]:
        print("INCONCLUSIVE " + res["inconclusive"][0])
        return 2
    print("replay: the recorded violation no longer occurs")
    return 0


def setup(E):
    ok = True
    for name, args, tdir, tc in (("sendsync", ["build", "--offline"], "target", None),
                                 ("c15", ["build", "--offline", "--release"], "target", None)):
        rc, out, err = _cargo(E, _crate_dir(E, name), args, tdir, toolchain=tc)
        ok = ok and rc == 0
    cdir = _crate_dir(E, "c16")
    try:
        open(os.path.join(cdir, "Cargo.lock"), "w").write(open(os.path.join(E["REPO"], "Cargo.lock")).read())
    except OSError:
        pass
    rc, out, err = _cargo(E, cdir, ["build", "--offline", "--release"], "target", toolchain="+1.81.0")
    ok = ok and rc == 0
    # warm the miri build of c15 (sysroot + dependencies)
    _cargo(E, _crate_dir(E, "c15"), ["miri", "run", "--offline"], "target/miri", toolchain="+nightly",
           extra_env={"MIRIFLAGS": "-Zmiri-many-seeds=0..1"}, clean_pkg=False, timeout=1800, prog_args=[1, 2, 2, 1])
    return ok

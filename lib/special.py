"""Property-specific legs that do not run inside the evxmon workers (other toolchains, sanitizers, compile-time facts)."""


def build_failure_verdict(prop, cargo_output):
    """A harness build failure is an infrastructure failure unless a property says otherwise."""
    return None


def run(prop, tier, seed, workdir, env):
    return None


def replay(prop, witness, env):
    print("INCONCLUSIVE this witness has no replay procedure")
    return 2


def setup(env):
    return True

#!/usr/bin/env python3
"""Regenerates /verif/seeded/INDEX.md from the meta.json files."""
import glob, json, os
MISSED_FIRST = {
 "C05-3": "C05 executed programs only mutably -> every sequence program also runs through the read-only path",
 "C07-3": "conservative gap rule never let a sign touch a digit word -> rule relaxed, undefined-word tokens in the alphabet",
 "C09-3": "call forms lacked `n true` / `n 2.5` -> added",
 "C10-1": "no rejected-type needle after a hit -> pool tuples and deeper random needles",
 "C10-2": "oracle accepted f64 ties between two integers -> integers compared exactly",
 "C12-2": "no signed / padded numeric strings -> numeric-looking string generator",
 "C14-3": "no namespaced unknown function names -> added",
 "C01-5": "no escape-like sequences inside string literals in the hostile soup -> added (C06 also rejects multi-character escapes now)",
 "C02-4": "NOT CAUGHT BY DESIGN: `a += b = c` is a mixed assignment chain, which the property lists as not claimed (the outer assignment's left operand is not a bare identifier under either grouping rule)",
 "C04-6": "no user function named like a builtin in the history alphabet -> set_function(typeof/len) and calls added",
 "C06-4": "random strings had no CR, no CR+LF pair -> all ordered pairs over a hostile 10-character set",
 "C07-5": "comment bodies were ASCII only -> non-ASCII and random comment bodies",
 "C07-6": "no CR inside line comments -> added",
 "C08-6": "only the untyped entry points were observed for effects -> one of the 14 typed mutable entry points per program, effects and final context compared",
 "C09-5": "every cell built a fresh tree -> one precompiled tree per call form reused across configurations",
 "C09-6": "feature-gated builtin names (`random`, `str::regex_*`) were not among the non-builtin names -> added",
 "C12-4": "every pair built a fresh tree -> recently used trees are re-evaluated under new contexts (some shadowing builtins)",
 "C12-5": "no variable holding an empty tuple -> added to the random contexts",
 "C14-6": "variable and function names never overlapped; renaming always renamed both namespaces -> overlapping names, unbound variable + same-named function, per-namespace renaming",
 "C15-5": "workload used 6 distinct builtins -> two expressions with 16 distinct builtins each",
 "C01-7": "errors were Display-formatted only with short ASCII payloads -> new phase: 19 constructed + 19 evaluated errors around every pool value and long non-ASCII strings in all byte alignments",
 "C02-7": "every rendering was single-spaced -> every token sequence / AST is also judged in its tightest rendering",
 "C02-8": "NOT CAUGHT BY DESIGN: it only rejects forms the property lists as not claimed (`a + b = c`, `a = b += c`)",
 "C03-7": "NOT CAUGHT BY DESIGN: `MIN % -1` yielding 0 is one of the two readings the oracle accepts (mathematically exact result vs overflow of the defining division)",
 "C05-7": "sequence nesting never exceeded ~12 levels -> phase with 10-60 levels of sequences nested in open sequences",
 "C05-8": "programs ran only on explicit contexts -> every well-formed sequence also through the context-free eval()",
 "C05-9": "no typed tuple entry point in C05 -> Node::eval_tuple_with_context_mut / eval_tuple_with_context_mut alternate, effects and final context compared",
 "C06-8": "no leading-dot mantissa with exponent -> `.ddde±N` renderings",
 "C08-8": "C08 observed only the mutable path and never two identical operands -> read-only path with effect log and H2 schedule; duplicated operands in the corpus",
 "C08-9": "shadowing user functions never failed -> failing user functions named like builtins",
 "C09-7": "same -> third user-function mode 'present but failing' in the matrix",
 "C09-8": "no three-argument call form -> `n(true, x, y)`",
 "C11-7": "corpus had identifier targets only -> any token sequence that precompiles, projection decided by the H2 hook (assignment application reached in the mutable run)",
 "C11-8": "typed read-only entry points were C12's business only -> C12's checker also runs inside C11 on typed programs and snippets",
 "C11-9": "same, numeric-looking strings",
 "C13-7": "confirmation evaluated only through the mutable path -> read-only path first",
 "C13-8": "no string literal containing parentheses and escaped quotes in the alphabets -> added",
 "C13-9": "ill-formed sequences were rendered single-spaced only -> tightest rendering as well",
 "C14-7": "iterators were only collected -> partially advanced iterators finished through for_each / fold / last / count / nth",
 "C14-9": "renaming never went through source text -> renamed source must precompile to the iterator-renamed tree; `_<digits>` names",
 "C15-7": "(first 'caught' only through the Miri float false alarm) all contexts were built on the main thread -> every worker also builds a context of its own and evaluates the shared trees against it",
 "C15-9": "(first 'caught' only through the Miri float false alarm) identifiers were all short -> variables and functions with names beyond 16 bytes",
 "C16-7": "no byte-order mark / zero-width prefixes in the strings -> added",
 "C02-10": "no hex literal ending in e next to a sign in tight form -> token `0x1e`, sweep over the 55-token alphabet in tight rendering",
 "C02-11": "no chain longer than a dozen operators -> chains of 130-1500 operands per operator",
 "C02-12": "same -> prefix / assignment / call chains 130-1500 deep",
 "C03-12": "square root of the overflow boundary was not in the pool -> 3037000499/3037000500, cube roots, and random partners b = MAX / a +- 1",
 "C04-10": "at most 5 names and 2 functions per context -> contexts with 10-300 variables and 10-200 functions, cleared and re-used",
 "C04-11": "same -> random histories over 20 names",
 "C04-12": "no long string among the values -> 350-byte string in the BFS value domain",
 "C05-10": "sequence elements assigned integers only -> z = 0.0 / z = -0.0 elements",
 "C05-12": "C05 rendered with single spaces only -> random separator plans (Unicode whitespace, comments) for a quarter of the programs",
 "C07-10": "no `#`-initial word in the alphabets -> added",
 "C07-11": "the defect changed every rendering alike -> the canonical rendering is now anchored to the reference parser",
 "C07-12": "no word containing a backslash -> added",
 "C08-12": "programs were long but flat -> programs nested 130-330 levels",
 "C09-10": "no builtin under a foreign namespace among the names -> math::floor, math::min, str::len, sqrt, trim, … must be unknown (C09, C10)",
 "C09-11": "no call form with an assignment inside the argument -> `n(q = 5)`",
 "C09-12": "call forms were separated by ASCII blanks -> forms with U+00A0, U+2003, U+000B",
 "C10-10": "no Greek text in the string pool -> final-sigma and other special-casing strings",
 "C10-11": "large haystacks held no signed zeros / NaN -> added, with needle lists sized to cross the 1024-comparison mark",
 "C11-10": "sequences had 2-4 elements -> sequences and argument lists of every size 2..=70",
 "C11-11": "no byte-order-mark prefix in C11's strings -> added",
 "C11-12": "no deep tree in C11 -> programs nested 130-330 levels",
 "C12-10": "no deep nesting in C12's strings -> 130-900 nested parentheses / calls / prefix operators",
 "C12-11": "no expression naming math::pi / math::e / math::tau (or other plausible pre-seeded names) -> added",
 "C12-12": "no byte-order-mark prefix -> one string in 25 gets one",
 "C13-10": "ill-formed sequences were never rendered with comments -> random separator plans for a quarter of them",
 "C13-11": "the tight renderer kept `1e` away from a sign even where no float can form -> the re-lex check decides alone",
 "C13-12": "no identifier spelled and / or / not -> added",
 "C14-11": "C14 rendered without comments -> tight and separator-plan renderings for a quarter of the programs",
 "C14-12": "identifiers were ASCII or v<n> -> names with non-ASCII characters whose low byte is an operator character",
 "C16-10": "no source with hundreds of parentheses (nested, in a string, in a comment) -> added",
 "C16-11": "no CR+LF inside a string literal in the serde corpus -> added",
 "C16-12": "tuples had at most 3 elements -> tuples of 8-40 elements, numeric ones of mixed kinds",
 "C06-11": "typographic quotes were in no sample -> 40 quote / slash / star look-alikes and format characters",
 "C06-12": "no zero-width character inside words -> added to the word alphabet",
 "C15-10": "clones of shared trees were compared and dropped but not evaluated; no wide node -> 40 / 24 / 20-element nodes, clones are evaluated",
 "C15-11": "each tree was evaluated ~40 times per round -> all threads hammer one wide literal tuple right after the barrier",
 "C15-12": "contexts lived for one round -> one context lives through all rounds; an expression calling a slow shared function four times",
 "C16-5": "no failing deserializations; the transport self-check went through evalexpr's own Value -> damaged inputs interleaved, harness-owned mirror type for the self-check",
}
out = ["# Seeded changes (independent sub-agents) and what catches them\n",
       "Each directory holds `patch.diff` (applies to /repo HEAD with `git apply`), `demo.rs` (integration test that fails with the change and passes without) and `meta.json` (what it breaks, what it needs to manifest, how it was confirmed, which checks caught it). Seeds `-1..-3` are from the first round, `-4..-6` from a second round whose agents were told what the first round had already produced.\n",
       "All were written by sub-agents that saw only the property text and a scratch worktree; every one compiles and keeps the 58 tests + doctests green (confirmed in a scratch worktree by `lib/seed_intake.py`).\n",
       "| seed | change | needs | caught by (quick tier) | first witness | missed by the first version because -> what changed |", "|---|---|---|---|---|---|"]
n = caught_n = 0
for d in sorted(glob.glob('/verif/seeded/C??-*')):
    m = json.load(open(d + '/meta.json'))
    det = m.get('detection', {})
    caught = [k for k, v in det.items() if v.get('exit') == 1]
    w = det[caught[-1]]['first_witness'] if caught else ''
    esc = lambda s: s.replace('|', '\\|').replace('\n', ' ')
    name = os.path.basename(d)
    n += 1
    caught_n += 1 if caught else 0
    out.append("| %s | %s | %s | %s | %s | %s |" % (name, esc(m['summary'][:220]), esc(m['needs'][:160]), ', '.join(caught) or 'not caught', esc(w[:110]), esc(MISSED_FIRST.get(name, ''))))
out.append("\n%d seeds, %d caught by the owning property's quick check.\n" % (n, caught_n))
open('/verif/seeded/INDEX.md', 'w').write('\n'.join(out) + '\n')
print(n, caught_n)

//! C15, runtime part: many threads evaluate the same shared precompiled expressions against the same shared contexts;
//! every result must equal the sequential one. Runs natively (stress), under Miri (UB + data-race interpreter, one
//! schedule per seed) and under ThreadSanitizer.
//!
//! usage: evx-c15 <rounds> <threads> <evals-per-thread> <seed>
//!        evx-c15 cold <threads> <seed>      (the process's first use of the library is concurrent; per-thread clones)
//! prints one JSON summary line; exit 0 = all results equal, 1 = mismatch (details on stdout as MISMATCH lines)

use evalexpr::{
    build_operator_tree, Context, ContextWithMutableFunctions, ContextWithMutableVariables, DefaultNumericTypes,
    EvalexprError, EvalexprResult, Function, HashMapContext, Node, Value,
};
use std::collections::HashSet;
use std::sync::atomic::{AtomicU64, AtomicUsize, Ordering};
use std::sync::{Arc, Barrier, Mutex};

type Ctx = HashMapContext<DefaultNumericTypes>;

struct Rng(u64);
impl Rng {
    fn next(&mut self) -> u64 {
        self.0 = self.0.wrapping_add(0x9E37_79B9_7F4A_7C15);
        let mut z = self.0;
        z = (z ^ (z >> 30)).wrapping_mul(0xBF58_476D_1CE4_E5B9);
        z = (z ^ (z >> 27)).wrapping_mul(0x94D0_49BB_1331_11EB);
        z ^ (z >> 31)
    }
    fn below(&mut self, n: usize) -> usize {
        (self.next() % n as u64) as usize
    }
}

fn spin(n: u64) {
    // a delay in user code: the only suspension points a library user can create
    // the interpreter is ~1000x slower; its scheduler preempts on its own
    let n = if cfg!(miri) { n / 16 } else { n };
    let mut x = n;
    for i in 0..n {
        x = x.wrapping_mul(6364136223846793005).wrapping_add(i);
        std::hint::spin_loop();
    }
    if x == 42 {
        std::thread::yield_now();
    }
    if n % 3 == 0 {
        std::thread::yield_now();
    }
}

/// A Sync user context whose lookups take a PRNG-chosen time and are stamped with a global sequence number.
struct SlowContext {
    inner: Ctx,
    clock: Arc<AtomicU64>,
    log: Arc<Mutex<Vec<(u64, usize)>>>,
    salt: u64,
}

thread_local! {
    static THREAD_ID: std::cell::Cell<usize> = const { std::cell::Cell::new(0) };
}

impl SlowContext {
    fn stamp(&self, what: u64) {
        let seq = self.clock.fetch_add(1, Ordering::SeqCst);
        let tid = THREAD_ID.with(|t| t.get());
        self.log.lock().unwrap().push((seq, tid));
        spin((seq ^ self.salt ^ what) % 40);
    }
}

impl Context for SlowContext {
    type NumericTypes = DefaultNumericTypes;
    fn get_value(&self, identifier: &str) -> Option<&Value> {
        self.stamp(identifier.len() as u64);
        self.inner.get_value(identifier)
    }
    fn call_function(&self, identifier: &str, argument: &Value) -> EvalexprResult<Value> {
        self.stamp(identifier.len() as u64 + 7);
        self.inner.call_function(identifier, argument)
    }
    fn are_builtin_functions_disabled(&self) -> bool {
        self.inner.are_builtin_functions_disabled()
    }
    fn set_builtin_functions_disabled(&mut self, disabled: bool) -> EvalexprResult<()> {
        self.inner.set_builtin_functions_disabled(disabled)
    }
}

/// number of expensive sources at the end of `sources()` (not under Miri)
const HEAVY: usize = 5;

fn sources() -> Vec<String> {
    // the interpreter is ~1000x slower: same shapes, smaller sizes (still above the usual inline-buffer sizes 16 / 32)
    let (deep1, deep2, lit, wide, chain) = if cfg!(miri) { (18, 12, 34, 17, 17) } else { (60, 48, 40, 24, 20) };
    let mut v = vec![
        "a * 2 + twice(b) - len(s) + slow(a)".to_string(),
        "if(a > 2, (a, b, s, slow(b)), max(a, b, 3.5))".to_string(),
        // deep trees: many threads are deep inside the same shared tree at the same time
        format!("{}a + 1{} * b", "(".repeat(deep1), ")".repeat(deep1)),
        "twice(twice(twice(slow(twice(a))))) + math::sqrt(b) ^ 2 - str::from(a) == s".to_string(),
        "(a, b, s, (a + b, s + s), typeof(s), nosuch(a))".to_string(),
        // wide nodes: a 40-element literal tuple (a lookup table), a 24-element tuple of computed elements, a 20-element chain
        format!("({})", (1..=lit).map(|i| i.to_string()).collect::<Vec<_>>().join(", ")),
        format!("({})", (1..=wide).map(|i| format!("a + {} * twice(c)", i)).collect::<Vec<_>>().join(", ")),
        format!("{}; a", (1..=chain).map(|i| format!("twice(a + {})", i)).collect::<Vec<_>>().join("; ")),
        // overlapping calls of one slow shared function, several per evaluation
        "slow(a) + slow(c) + slow(a) - slow(c)".to_string(),
        // long identifiers (hashing of long keys, namespaced function names)
        "a_rather_long_variable_name_beyond_sixteen_bytes + ns::a_long_function_name(a) * a - another::quite::long::name(b)".to_string(),
        format!("{}a{} + slow(b) * c", "-(".repeat(deep2), ")".repeat(deep2)),
        // many distinct builtins in one evaluation, in two different orders (whatever is cached per context or per
        // tree about resolved builtins is replaced all the time). Only exactly-specified builtins: Miri deliberately
        // perturbs the last bits of sin/cos/exp/ln/pow…, so those would differ between two evaluations under Miri.
        "floor(b) + ceil(b) + round(b) + math::abs(a) + min(a, b) + max(a, b) + len(s) + bitand(a, 5) + bitor(a, 2) + bitxor(a, 9) + bitnot(a) + shl(1, 3) + shr(a, 1) + math::sqrt(b) + if(math::is_nan(b), 1, 2) + len(str::to_uppercase(s))".to_string(),
        "len(str::trim(s)) + shr(a, 1) + bitor(a, 2) + len(s) + max(a, b) + min(a, b) + math::abs(a) + round(b) + ceil(b) + floor(b) + len(str::to_lowercase(s)) + if(contains((a, b), a), 1, 2) + if(math::is_finite(b), 3, 4) + len(typeof(s)) + len(str::substring(s, 1)) + bitnot(a)".to_string(),
        // arguments that compare equal but are different values (the sign of zero), passed to one slow shared function
        // by different threads at overlapping times: each call gets the result for its own argument
        "zsign(0.0)".to_string(),
        "zsign(-0.0)".to_string(),
        "zsign((0.0, 1))".to_string(),
        "zsign((-0.0, 1))".to_string(),
    ];
    // a user function that uses the library itself (and its builtins) while other threads resolve names never seen before
    v.push("reenter(a) + a".to_string());
    if !cfg!(miri) {
        // (these four stay the last sources: they are expensive and evaluated in a burst of their own, see HEAVY)
        // builtins on arguments large enough for an implementation to split the work: thousands of elements with equal
        // extremes of both numeric types at many positions, and a needle list whose first element is found and whose
        // last element is of a type the function rejects (the sequential answer is the type error)
        v.push("min(big)".to_string());
        v.push("(max(big), typeof(min(big)), typeof(max(big)))".to_string());
        v.push("contains_any(hay, needles)".to_string());
        v.push("contains(big, 1.0) && contains_any(hay, (5, 7, 4099))".to_string());
        v.push("(contains(huge, 69999), contains(huge, -1), contains(huge, 0.5))".to_string());
    }
    if cfg!(miri) {
        // one of the two many-builtin expressions is enough for the interpreter, and the wide tuple covers wide nodes
        v.retain(|s| !s.starts_with("len(str::trim(s))") && !s.starts_with("twice(a + 1); "));
    }
    v
}

fn make_ctx(variant: usize) -> Ctx {
    let mut c = Ctx::new();
    let (a, b) = if variant % 2 == 0 { (3i64, 4.5f64) } else { (-7i64, 0.25f64) };
    c.set_value("a".into(), Value::Int(a)).unwrap();
    c.set_value("b".into(), Value::Float(b)).unwrap();
    c.set_value("c".into(), Value::Int(variant as i64 + 1)).unwrap();
    c.set_value("s".into(), Value::String(if variant % 2 == 0 { "hello".into() } else { "äb".into() })).unwrap();
    c.set_value("a_rather_long_variable_name_beyond_sixteen_bytes".into(), Value::Int(1000 + variant as i64)).unwrap();
    c.set_function("ns::a_long_function_name".into(), Function::new(|v: &Value| Ok(v.clone()))).unwrap();
    c.set_function(
        "another::quite::long::name".into(),
        Function::new(|v: &Value| match v {
            Value::Float(f) => Ok(Value::Float(f + 1.0)),
            other => Ok(other.clone()),
        }),
    )
    .unwrap();
    c.set_function(
        "twice".into(),
        Function::new(|v: &Value| match v {
            Value::Int(i) => Ok(Value::Int(i.wrapping_mul(2))),
            Value::Float(f) => Ok(Value::Float(f * 2.0)),
            other => Err(EvalexprError::CustomMessage(format!("twice: {}", other))),
        }),
    )
    .unwrap();
    // a user function that takes a while, so that calls from different threads overlap
    c.set_function(
        "slow".into(),
        Function::new(|v: &Value| {
            spin(2500);
            Ok(v.clone())
        }),
    )
    .unwrap();
    if !cfg!(miri) {
        let big: Vec<Value> = (0..6000i64)
            .map(|i| match i % 14 {
                0 => Value::Int(1),
                7 => Value::Float(1.0),
                3 => Value::Float(9_999_999.0),
                10 => Value::Int(9_999_999),
                _ if i % 2 == 0 => Value::Int(10 + i),
                _ => Value::Float(10.5 + i as f64),
            })
            .collect();
        c.set_value("big".into(), Value::Tuple(big)).unwrap();
        c.set_value("hay".into(), Value::Tuple((0..2100i64).map(Value::Int).collect())).unwrap();
        c.set_value("huge".into(), Value::Tuple((0..70_000i64).map(Value::Int).collect())).unwrap();
        let mut needles: Vec<Value> = (0..2100i64).map(|i| Value::Int(if i == 0 { 10 } else { 5000 + i })).collect();
        needles.push(Value::Empty);
        c.set_value("needles".into(), Value::Tuple(needles)).unwrap();
    }
    c.set_function(
        "reenter".into(),
        Function::new(|v: &Value| {
            let inner = evalexpr::eval_int("max(1, 2) + len(\"ab\") + min(7, 9)")?;
            spin(100);
            match v {
                Value::Int(i) => Ok(Value::Int(i + inner)),
                other => Ok(other.clone()),
            }
        }),
    )
    .unwrap();
    // takes a while and renders its argument exactly (Debug keeps the sign of zero)
    c.set_function(
        "zsign".into(),
        Function::new(|v: &Value| {
            spin(1500);
            Ok(Value::String(format!("{:?}", v)))
        }),
    )
    .unwrap();
    if variant == 3 {
        c.set_builtin_functions_disabled(true).unwrap();
    }
    c
}

enum Shared {
    Plain(Arc<Ctx>),
    Slow(Arc<SlowContext>),
}

fn eval_on(t: &Node, c: &Shared) -> String {
    match c {
        Shared::Plain(c) => format!("{:?}", t.eval_with_context(&**c)),
        Shared::Slow(c) => format!("{:?}", t.eval_with_context(&**c)),
    }
}

/// A call counter owned by a closure by value; a clone starts from the current count.
struct OwnedCounter(std::sync::atomic::AtomicI64);
impl OwnedCounter {
    fn next(&self) -> i64 {
        self.0.fetch_add(1, Ordering::SeqCst) + 1
    }
}
impl Clone for OwnedCounter {
    fn clone(&self) -> Self {
        OwnedCounter(std::sync::atomic::AtomicI64::new(self.0.load(Ordering::SeqCst)))
    }
}

/// Cold start: the very first thing this process does with the library happens on all threads at once (behind a barrier):
/// builtin lookups, unknown functions, parsing, formatting — whatever the library initialises lazily is initialised under
/// contention. Then every thread works on its own clone of one template context whose function owns a counter by value:
/// a clone sent to another thread is independent of the template and of the other clones. The sequential expectation is
/// computed afterwards.
fn cold(threads: usize, seed: u64) -> ! {
    let srcs: Vec<&'static str> = vec![
        "min(3, 2) + max(1, 5)",
        "math::sqrt(16) + floor(2.5)",
        "len(\"hello\") + str::to_uppercase(\"a\") == 6",
        "nosuch(1)",
        "typeof(1.5), str::from(7), contains((1, 2, 3), 2)",
        "bitand(6, 3) + shl(1, 4) + round(0.5)",
        "if(true, \"x\", 2) + str::trim(\"  y \")",
        "a + twice(c) * 2 < 100 && s != \"\"",
        "(2 * 10) % 7 - 2 * a",
    ];
    let calls = if cfg!(miri) { 6 } else { 300 };
    let counter = OwnedCounter(std::sync::atomic::AtomicI64::new(0));
    let mut template = make_ctx(0);
    template.set_function("next".into(), Function::new(move |_| Ok(Value::Int(counter.next())))).unwrap();
    let shared = Arc::new(make_ctx(1));
    let barrier = Arc::new(Barrier::new(threads));
    let mut handles = Vec::new();
    for t in 0..threads {
        let own = template.clone();
        let shared = shared.clone();
        let barrier = barrier.clone();
        let srcs = srcs.clone();
        handles.push(std::thread::spawn(move || {
            let mut out: Vec<String> = Vec::new();
            let order: Vec<usize> = (0..srcs.len()).map(|i| (i + t + seed as usize) % srcs.len()).collect();
            barrier.wait();
            for i in order {
                let got = match build_operator_tree::<DefaultNumericTypes>(srcs[i]) {
                    Ok(tree) => format!("{:?} / {}", tree.eval_with_context(&*shared), tree),
                    Err(e) => format!("build error {:?} / {}", e, e),
                };
                out.push(format!("{}\u{1}{}", i, got));
            }
            let tree = build_operator_tree::<DefaultNumericTypes>("next() * 2").unwrap();
            let mine: Vec<String> = (0..calls).map(|_| format!("{:?}", tree.eval_with_context(&own))).collect();
            (out, mine)
        }));
    }
    let results: Vec<_> = handles.into_iter().map(|h| h.join()).collect();
    // the sequential expectation, after the fact
    let expected: Vec<String> = srcs
        .iter()
        .map(|s| match build_operator_tree::<DefaultNumericTypes>(s) {
            Ok(tree) => format!("{:?} / {}", tree.eval_with_context(&*shared), tree),
            Err(e) => format!("build error {:?} / {}", e, e),
        })
        .collect();
    let expected_mine: Vec<String> = (1..=calls as i64).map(|k| format!("{:?}", Ok::<Value, EvalexprError>(Value::Int(k * 2)))).collect();
    let mut mm = 0usize;
    let mut evals = 0usize;
    for (t, r) in results.into_iter().enumerate() {
        match r {
            Err(_) => {
                mm += 1;
                println!("MISMATCH cold start: thread {} panicked during its first evaluations", t);
            },
            Ok((out, mine)) => {
                evals += out.len() + mine.len();
                for line in out {
                    let (i, got) = line.split_once('\u{1}').unwrap();
                    let i: usize = i.parse().unwrap();
                    if got != expected[i] {
                        mm += 1;
                        if mm <= 4 {
                            println!("MISMATCH cold start: thread {} `{}` gave {} sequential {}", t, srcs[i], got, expected[i]);
                        }
                    }
                }
                if mine != expected_mine {
                    mm += 1;
                    let k = mine.iter().zip(&expected_mine).position(|(a, b)| a != b).unwrap_or(0);
                    if mm <= 4 {
                        println!("MISMATCH cloned context: thread {} call #{} of `next() * 2` on its own clone gave {} sequential {}", t, k + 1, mine.get(k).cloned().unwrap_or_default(), expected_mine.get(k).cloned().unwrap_or_default());
                    }
                }
            },
        }
    }
    println!(
        "{{\"rounds\": 1, \"threads\": {}, \"evaluations\": {}, \"mismatches\": {}, \"distinct_interleavings\": 0, \"slow_context_events\": 0, \"interleaving_samples\": [], \"expected_sample\": {:?}}}",
        threads, evals, mm, expected[0]
    );
    std::process::exit(if mm == 0 { 0 } else { 1 });
}

fn main() {
    let args: Vec<String> = std::env::args().collect();
    if args.get(1).map(|s| s.as_str()) == Some("cold") {
        let threads = args.get(2).and_then(|s| s.parse::<usize>().ok()).unwrap_or(16);
        let seed = args.get(3).and_then(|s| s.parse::<u64>().ok()).unwrap_or(1);
        cold(threads, seed);
    }
    let num = |i: usize, d: u64| args.get(i).and_then(|s| s.parse::<u64>().ok()).unwrap_or(d);
    let rounds = num(1, 20);
    let threads = num(2, 8) as usize;
    let evals = num(3, 24) as usize;
    let seed = num(4, 1);

    // expectations: sequential evaluation of freshly built trees on freshly built contexts
    let nctx = if cfg!(miri) { 2usize } else { 4usize };
    let mut expected: Vec<Vec<String>> = Vec::new();
    let srcs = sources();
    for src in &srcs {
        let mut row = Vec::new();
        for k in 0..nctx {
            let t = build_operator_tree::<DefaultNumericTypes>(src).expect("workload expression must precompile");
            let c = make_ctx(k);
            row.push(format!("{:?}", t.eval_with_context(&c)));
        }
        expected.push(row);
    }

    // one context that lives through all rounds: its functions are called hundreds of thousands of times, from all
    // threads, with overlapping calls (per-function or per-context state that creeps shows only here)
    let persistent: Arc<Ctx> = Arc::new(make_ctx(0));
    let clock = Arc::new(AtomicU64::new(0));
    let mismatches = Arc::new(AtomicUsize::new(0));
    let total_evals = Arc::new(AtomicUsize::new(0));
    let mut signatures: HashSet<u64> = HashSet::new();
    let mut samples: Vec<String> = Vec::new();
    type Job = (Arc<Ctx>, Arc<Node>);
    let pool: Vec<(std::sync::mpsc::Sender<Job>, std::sync::mpsc::Receiver<String>)> = (0..(if cfg!(miri) { 2 } else { 3 }))
        .map(|_| {
            let (tx, rx) = std::sync::mpsc::channel::<Job>();
            let (rtx, rrx) = std::sync::mpsc::channel::<String>();
            std::thread::spawn(move || {
                while let Ok((c, t)) = rx.recv() {
                    let got = format!("{:?}", t.eval_with_context(&*c));
                    drop(c);
                    drop(t);
                    if rtx.send(got).is_err() {
                        break;
                    }
                }
            });
            (tx, rrx)
        })
        .collect();
    for round in 0..rounds {
        // few shared objects, many threads
        let trees: Vec<Arc<Node>> = srcs.iter().map(|s| Arc::new(build_operator_tree::<DefaultNumericTypes>(s).unwrap())).collect();
        let log = Arc::new(Mutex::new(Vec::new()));
        let ctxs: Arc<Vec<Shared>> = Arc::new(
            (0..nctx)
                .map(|k| {
                    if k < nctx / 2 {
                        Shared::Plain(Arc::new(make_ctx(k)))
                    } else {
                        Shared::Slow(Arc::new(SlowContext {
                            inner: make_ctx(k),
                            clock: clock.clone(),
                            log: log.clone(),
                            salt: seed.wrapping_mul(31).wrapping_add(round),
                        }))
                    }
                })
                .collect(),
        );
        // arguments that differ from thread to thread (and from round to round) for builtins whose results are worth
        // remembering: text conversions of non-ASCII strings, powers with fractional exponents, renderings of tuples of
        // 64 and more elements. Expected results: the same expressions evaluated here, one after the other.
        let per_thread: Arc<Vec<Vec<(String, String)>>> = Arc::new(
            (0..threads)
                .map(|tid| {
                    let mut v = vec![
                        format!("str::to_uppercase(\"é{}ß{}\") + str::to_lowercase(\"À{}Ñ\")", tid, round, tid),
                        format!("str::from(({}))", (0..(64 + tid)).map(|i| (i * (tid + 1)).to_string()).collect::<Vec<_>>().join(", ")),
                        format!("len(str::trim(\"  é{}  \")) + max({}, 2.5, {})", tid, tid, round),
                        format!("str::to_lowercase(\"ǅ{}İ\") + str::from((\"ß{}\", {}.5))", round, tid, tid),
                    ];
                    if !cfg!(miri) {
                        // (inexact float intrinsics: Miri perturbs them on purpose)
                        v.push(format!("{}.5 ^ 1.5 + math::pow({}.25, 0.75)", tid + 1, round % 50 + 1));
                        v.push(format!("math::hypot({}.5, 2) + math::ln({}.125)", tid, round % 90 + 1));
                    }
                    v.into_iter()
                        .map(|src| {
                            let want = format!("{:?}", evalexpr::eval_with_context(&src, &*persistent));
                            (src, want)
                        })
                        .collect()
                })
                .collect(),
        );
        // constant expressions, each precompiled as the very first thing its (fresh) thread does, then evaluated by every
        // thread: whatever a thread numbers or remembers about "its" trees must not identify a tree of another thread
        let const_trees: Arc<Mutex<Vec<(Arc<Node>, String)>>> = Arc::new(Mutex::new(Vec::new()));
        let barrier2 = Arc::new(Barrier::new(threads));
        // long-lived threads (they outlive every context of the run) call a capturing function of a context that the
        // main thread creates for this round and drops before the next one
        {
            let captured = 1_000_000 + round as i64 * 7;
            let mut c = Ctx::new();
            c.set_function("captured".into(), Function::new(move |_| Ok(Value::Int(captured)))).unwrap();
            c.set_value("pad".into(), Value::Int(round as i64)).unwrap();
            let c = Arc::new(c);
            let t = Arc::new(build_operator_tree::<DefaultNumericTypes>("captured() + pad * 0").unwrap());
            for (tx, _) in pool.iter() {
                tx.send((c.clone(), t.clone())).expect("pool thread alive");
            }
            for (k, (_, rx)) in pool.iter().enumerate() {
                match rx.recv_timeout(std::time::Duration::from_secs(if cfg!(miri) { 900 } else { 180 })) {
                    Ok(got) => {
                        total_evals.fetch_add(1, Ordering::Relaxed);
                        let want = format!("{:?}", Ok::<Value, EvalexprError>(Value::Int(captured)));
                        if got != want {
                            mismatches.fetch_add(1, Ordering::Relaxed);
                            println!("MISMATCH long-lived thread {} round {}: capturing function of this round's context: expected {} got {}", k, round, want, got);
                        }
                    },
                    Err(_) => {
                        mismatches.fetch_add(1, Ordering::Relaxed);
                        println!("MISMATCH long-lived thread {} round {}: no answer", k, round);
                    },
                }
            }
            // the workers have dropped their handles before answering: the context dies here, on the main thread
            drop(c);
        }
        let barrier = Arc::new(Barrier::new(threads));
        let expected = Arc::new(expected.clone());
        let hot = srcs.iter().position(|s| s.starts_with("(1, 2, 3")).expect("the literal lookup table is one of the sources");
        let slow_tree = srcs.iter().position(|s| s.starts_with("slow(a) + slow(c)")).expect("the slow-function expression is one of the sources");
        let zsign0 = srcs.iter().position(|s| s == "zsign(0.0)").expect("the sign-of-zero expressions are among the sources");
        // the expensive large-argument sources are the last HEAVY ones; the rotations below use the others
        let n_light = srcs.len() - if cfg!(miri) { 0 } else { HEAVY };
        let reenter_tree = srcs.iter().position(|s| s == "reenter(a) + a").expect("the re-entrant function expression is one of the sources");
        // a shared tree that introduces identifiers no context and no tree of this process has used before; every
        // thread evaluates it on a context of its own, all at the same moment
        let fresh_name = format!("fresh_{}_{}_introduced_by_all_threads_at_once", seed, round);
        let fresh_tree = Arc::new(
            build_operator_tree::<DefaultNumericTypes>(&format!("{n} = a + {r}; other_{n} = {n} * 2; ({n}, other_{n})", n = fresh_name, r = round)).expect("workload expression must precompile"),
        );
        let mut handles = Vec::new();
        for tid in 0..threads {
            let trees = trees.clone();
            let ctxs = ctxs.clone();
            let barrier = barrier.clone();
            let expected = expected.clone();
            let mismatches = mismatches.clone();
            let total = total_evals.clone();
            let persistent = persistent.clone();
            let fresh_tree = fresh_tree.clone();
            let fresh_name = fresh_name.clone();
            let per_thread = per_thread.clone();
            let const_trees = const_trees.clone();
            let barrier2 = barrier2.clone();
            handles.push(std::thread::spawn(move || {
                THREAD_ID.with(|t| t.set(tid + 1));
                {
                    // the first tree this thread ever builds: a constant expression of its own
                    let (x, y) = (tid as i64 + 2, round as i64 + 3);
                    let src = format!("({} + {}) * ({} - 1)", x, y, x);
                    let t = Arc::new(build_operator_tree::<DefaultNumericTypes>(&src).expect("constant expression precompiles"));
                    let want = format!("{:?}", Ok::<Value, EvalexprError>(Value::Int((x + y) * (x - 1))));
                    const_trees.lock().unwrap().push((t, want));
                }
                let mut r = Rng(seed ^ (round << 20) ^ ((tid as u64) << 40));
                barrier.wait();
                let mut out: Vec<String> = Vec::new();
                barrier2.wait();
                {
                    let all: Vec<(Arc<Node>, String)> = const_trees.lock().unwrap().clone();
                    for pass in 0..2 {
                        for (k, (t, want)) in all.iter().enumerate() {
                            // (own clones as well: a clone made here is a tree of this thread)
                            let got = if pass == 0 { format!("{:?}", t.eval()) } else { format!("{:?}", (**t).clone().eval()) };
                            total.fetch_add(1, Ordering::Relaxed);
                            if got != *want {
                                mismatches.fetch_add(1, Ordering::Relaxed);
                                out.push(format!("MISMATCH thread {} round {}: constant tree #{} built first thing on another thread: expected {} got {}", tid, round, k, want, got));
                                break;
                            }
                        }
                    }
                }
                // a context set up on this very thread (whatever a context remembers about the thread that built it
                // must not leak into a shared tree)
                let own_variant = tid % nctx;
                let own = make_ctx(own_variant);
                {
                    // the shared tree assigns identifiers that are new to the whole process, on this thread's own context
                    let mut mine = make_ctx(own_variant);
                    let a = if own_variant % 2 == 0 { 3i64 } else { -7i64 };
                    let v = a + round as i64;
                    let want = format!("{:?}", Ok::<Value, EvalexprError>(Value::Tuple(vec![Value::Int(v), Value::Int(v * 2)])));
                    let got = format!("{:?}", fresh_tree.eval_with_context_mut(&mut mine));
                    let stored = format!("{:?}", (mine.get_value(&fresh_name), mine.get_value(&format!("other_{}", fresh_name))));
                    let want_stored = format!("{:?}", (Some(&Value::<DefaultNumericTypes>::Int(v)), Some(&Value::<DefaultNumericTypes>::Int(v * 2))));
                    // … and a name introduced through set_value by all threads at once, read back through a string evaluation
                    let sv = format!("set_by_all_{}_{}", seed, round);
                    mine.set_value(sv.clone(), Value::Int(tid as i64)).unwrap();
                    let back = format!("{:?}", evalexpr::eval_int_with_context(&format!("{} + 1", sv), &mine));
                    total.fetch_add(2, Ordering::Relaxed);
                    if got != want || stored != want_stored || back != format!("{:?}", Ok::<i64, EvalexprError>(tid as i64 + 1)) {
                        mismatches.fetch_add(1, Ordering::Relaxed);
                        out.push(format!(
                            "MISMATCH thread {} round {} fresh identifiers on a context of its own: expected {} stored {} read-back {} got {} stored {} read-back {}",
                            tid, round, want, want_stored, tid + 1, got, stored, back
                        ));
                    }
                }
                // sign of zero: neighbouring threads call the same slow function of the long-lived context with 0.0 and -0.0
                for k in 0..(if cfg!(miri) { 2 } else { 6 }) {
                    let ti = zsign0 + (tid + k) % 4;
                    let got = format!("{:?}", trees[ti].eval_with_context(&*persistent));
                    total.fetch_add(1, Ordering::Relaxed);
                    if got != expected[ti][0] {
                        mismatches.fetch_add(1, Ordering::Relaxed);
                        out.push(format!("MISMATCH thread {} round {} tree {} on the long-lived context: expected {} got {}", tid, round, ti, expected[ti][0], got));
                        break;
                    }
                }
                // builtins on arguments that are this thread's own, while the other threads use theirs (all threads start this
                // together: whatever is shared between calls is then written by many at once)
                barrier.wait();
                // (each expression several times in a row: the second evaluation is the one that would be answered from
                // something remembered, while the other threads are busy replacing it)
                let own_exprs: Vec<(Arc<Node>, &String, &String)> = per_thread[tid].iter().map(|(s, w)| (Arc::new(build_operator_tree::<DefaultNumericTypes>(s).expect("precompiles")), s, w)).collect();
                'own: for _ in 0..(if cfg!(miri) { 1 } else { 10 }) {
                    for (tree, src, want) in own_exprs.iter() {
                        for rep in 0..(if cfg!(miri) { 2 } else { 8 }) {
                            let got = if rep % 4 == 3 { format!("{:?}", evalexpr::eval_with_context(src, &*persistent)) } else { format!("{:?}", tree.eval_with_context(&*persistent)) };
                            total.fetch_add(1, Ordering::Relaxed);
                            if got != **want {
                                mismatches.fetch_add(1, Ordering::Relaxed);
                                out.push(format!("MISMATCH thread {} round {} `{}` (arguments of this thread's own) on the long-lived context: expected {} got {}", tid, round, &src[..src.len().min(80)], want, got));
                                break 'own;
                            }
                        }
                    }
                }
                // large-argument builtins: every fourth round, one expression per thread, on the long-lived shared context and
                // on a shared plain context
                if !cfg!(miri) && round % 4 == 0 {
                    let ti = n_light + tid % HEAVY;
                    for (what, got, want) in [
                        ("the long-lived context", format!("{:?}", trees[ti].eval_with_context(&*persistent)), &expected[ti][0]),
                        ("shared context 0", eval_on(&trees[ti], &ctxs[0]), &expected[ti][0]),
                    ] {
                        total.fetch_add(1, Ordering::Relaxed);
                        if got != *want {
                            mismatches.fetch_add(1, Ordering::Relaxed);
                            out.push(format!("MISMATCH thread {} round {} tree {} (large arguments) on {}: expected {} got {}", tid, round, ti, what, want, got));
                        }
                    }
                }
                // some threads call a function that re-enters the library, the others resolve function names the process has
                // never seen (whatever the library remembers about names is being written while it is being read)
                for k in 0..(if cfg!(miri) { 2 } else { 12 }) {
                    if tid % 2 == 0 {
                        let got = format!("{:?}", trees[reenter_tree].eval_with_context(&*persistent));
                        total.fetch_add(1, Ordering::Relaxed);
                        if got != expected[reenter_tree][0] {
                            mismatches.fetch_add(1, Ordering::Relaxed);
                            out.push(format!("MISMATCH thread {} round {} re-entrant function on the long-lived context: expected {} got {}", tid, round, expected[reenter_tree][0], got));
                            break;
                        }
                    } else {
                        let name = format!("never_seen_{}_{}_{}_{}", seed, round, tid, k);
                        let got = format!("{:?}", evalexpr::eval_with_context(&format!("{}(1)", name), &*persistent));
                        let want = format!("{:?}", Err::<Value, EvalexprError>(EvalexprError::FunctionIdentifierNotFound(name.clone())));
                        total.fetch_add(1, Ordering::Relaxed);
                        if got != want {
                            mismatches.fetch_add(1, Ordering::Relaxed);
                            out.push(format!("MISMATCH thread {} round {} unknown function {}: expected {} got {}", tid, round, name, want, got));
                            break;
                        }
                    }
                }
                // different threads evaluate different strings through the string-level entry points at the same time
                for _ in 0..(if cfg!(miri) { 3 } else { 96 }) {
                    let (x, y) = (r.below(64) as i64, r.below(64) as i64);
                    let src = format!("{} + a * {} - c", x, y);
                    let want = format!("{:?}", Ok::<i64, EvalexprError>(x + 3 * y - 1));
                    let got = format!("{:?}", evalexpr::eval_int_with_context(&src, &*persistent));
                    total.fetch_add(1, Ordering::Relaxed);
                    if got != want {
                        mismatches.fetch_add(1, Ordering::Relaxed);
                        out.push(format!("MISMATCH thread {} round {} string evaluation of `{}` on the long-lived context: expected {} got {}", tid, round, src, want, got));
                        break;
                    }
                }
                // all threads hammer one wide shared tree and the long-lived context right after the barrier
                for _ in 0..(if cfg!(miri) { 2 } else { 8 }) {
                    let got = format!("{:?}", trees[hot].eval_with_context(&*persistent));
                    total.fetch_add(1, Ordering::Relaxed);
                    if got != expected[hot][0] {
                        mismatches.fetch_add(1, Ordering::Relaxed);
                        out.push(format!("MISMATCH thread {} round {} hot tree {} on the long-lived context: expected {} got {}", tid, round, hot, expected[hot][0], got));
                        break;
                    }
                }
                for e in 0..evals {
                    if e % 4 == 1 {
                        let ti = if e % 8 == 1 { slow_tree } else { (e + tid) % n_light };
                        let got = format!("{:?}", trees[ti].eval_with_context(&*persistent));
                        total.fetch_add(1, Ordering::Relaxed);
                        if got != expected[ti][0] {
                            mismatches.fetch_add(1, Ordering::Relaxed);
                            out.push(format!("MISMATCH thread {} round {} tree {} on the long-lived context: expected {} got {}", tid, round, ti, expected[ti][0], got));
                        }
                    }
                    if e % 3 == 0 {
                        let ti = (e / 3 + tid) % n_light;
                        let got = format!("{:?}", trees[ti].eval_with_context(&own));
                        total.fetch_add(1, Ordering::Relaxed);
                        if got != expected[ti][own_variant] {
                            mismatches.fetch_add(1, Ordering::Relaxed);
                            out.push(format!("MISMATCH thread {} round {} tree {} on a context built on this thread (variant {}): expected {} got {}", tid, round, ti, own_variant, expected[ti][own_variant], got));
                        }
                    }
                    // thread-specific order; the same shared tree meets different contexts back to back
                    let ti = (e + tid + r.below(2)) % n_light;
                    let ci = r.below(ctxs.len());
                    let got = eval_on(&trees[ti], &ctxs[ci]);
                    total.fetch_add(1, Ordering::Relaxed);
                    if got != expected[ti][ci] {
                        mismatches.fetch_add(1, Ordering::Relaxed);
                        out.push(format!("MISMATCH thread {} round {} tree {} ctx {}: expected {} got {}", tid, round, ti, ci, expected[ti][ci], got));
                    }
                    // other read-only uses of the shared objects from several threads
                    if e % 5 == tid % 5 {
                        let c = (*trees[ti]).clone();
                        if c != *trees[ti] || format!("{}", c) != format!("{}", trees[ti]) || c.iter_identifiers().count() != trees[ti].iter_identifiers().count() {
                            mismatches.fetch_add(1, Ordering::Relaxed);
                            out.push(format!("MISMATCH thread {}: clone / Display / iterators of shared tree {} differ", tid, ti));
                        }
                        // a clone taken while other threads are in the middle of evaluating the original is a complete,
                        // independent tree
                        let gc = eval_on(&c, &ctxs[ci]);
                        if gc != expected[ti][ci] {
                            mismatches.fetch_add(1, Ordering::Relaxed);
                            out.push(format!("MISMATCH thread {}: a clone of shared tree {} evaluates to {} (expected {})", tid, ti, gc, expected[ti][ci]));
                        }
                        drop(c);
                        if let Shared::Plain(p) = &ctxs[ci] {
                            let pc = (**p).clone();
                            let g2 = format!("{:?}", trees[ti].eval_with_context(&pc));
                            if g2 != expected[ti][ci] {
                                mismatches.fetch_add(1, Ordering::Relaxed);
                                out.push(format!("MISMATCH thread {}: clone of shared context {} gives {}", tid, ci, g2));
                            }
                        }
                    }
                }
                out
            }));
        }
        // a worker that never comes back is a result that differs from the sequential one: if no evaluation at all finishes
        // for a long time while workers are still running, report it (progress-based, not a deadline for the round)
        let stall_limit = std::time::Duration::from_secs(if cfg!(miri) { 900 } else { 180 });
        let mut last = (total_evals.load(Ordering::SeqCst), std::time::Instant::now());
        while !handles.iter().all(|h| h.is_finished()) {
            std::thread::sleep(std::time::Duration::from_millis(if cfg!(miri) { 1 } else { 20 }));
            let now = total_evals.load(Ordering::SeqCst);
            if now != last.0 {
                last = (now, std::time::Instant::now());
            } else if last.1.elapsed() > stall_limit {
                let stuck = handles.iter().filter(|h| !h.is_finished()).count();
                println!("MISMATCH round {}: {} worker thread(s) never returned; no evaluation finished for {} s (deadlock)", round, stuck, stall_limit.as_secs());
                println!("{{\"rounds\": {}, \"threads\": {}, \"evaluations\": {}, \"mismatches\": 1, \"distinct_interleavings\": {}, \"slow_context_events\": {}, \"interleaving_samples\": [], \"expected_sample\": \"deadlock\"}}", rounds, threads, now, signatures.len(), clock.load(Ordering::SeqCst));
                std::process::exit(1);
            }
        }
        for h in handles {
            match h.join() {
                Ok(lines) => {
                    for l in lines.into_iter().take(5) {
                        println!("{}", l);
                    }
                },
                Err(_) => {
                    mismatches.fetch_add(1, Ordering::Relaxed);
                    println!("MISMATCH a worker thread panicked in round {}", round);
                },
            }
        }
        // interleaving signature of the round: the thread-id sequence of the SlowContext log in global order
        let mut l = log.lock().unwrap().clone();
        l.sort();
        let mut h: u64 = 0xcbf29ce484222325;
        for (_, tid) in &l {
            h ^= *tid as u64;
            h = h.wrapping_mul(0x100000001b3);
        }
        signatures.insert(h);
        if samples.len() < 3 {
            samples.push(l.iter().take(24).map(|(_, t)| t.to_string()).collect::<Vec<_>>().join("."));
        }
    }
    let mm = mismatches.load(Ordering::SeqCst);
    println!(
        "{{\"rounds\": {}, \"threads\": {}, \"evaluations\": {}, \"mismatches\": {}, \"distinct_interleavings\": {}, \"slow_context_events\": {}, \"interleaving_samples\": [{}], \"expected_sample\": {:?}}}",
        rounds,
        threads,
        total_evals.load(Ordering::SeqCst),
        mm,
        signatures.len(),
        clock.load(Ordering::SeqCst),
        samples.iter().map(|s| format!("\"{}\"", s)).collect::<Vec<_>>().join(", "),
        expected[0][0]
    );
    std::process::exit(if mm == 0 { 0 } else { 1 });
}

//! C16 — serde support round-trips expressions and contexts.
//! Built with the repository's own toolchain (cargo +1.81.0) because only its registry holds ron 0.8.1.
//!
//! usage: evx-c16 <strings> <contexts> <seed>
//! prints MISMATCH lines and one JSON summary line; exit 0 = all round trips agree, 1 = mismatch

use evalexpr::{
    build_operator_tree, Context, ContextWithMutableFunctions, ContextWithMutableVariables, DefaultNumericTypes,
    EvalexprError, Function, HashMapContext, IterateVariablesContext, Node, Value,
};
use serde::Deserialize;
use std::collections::HashSet;

type Ctx = HashMapContext<DefaultNumericTypes>;

struct Rng(u64);
impl Rng {
    fn next(&mut self) -> u64 {
        self.0 = self.0.wrapping_add(0x9E37_79B9_7F4A_7C15);
        let mut z = self.0;
        z = (z ^ (z >> 30)).wrapping_mul(0xBF58_476D_1CE4_E5B9);
        z = (z ^ (z >> 27)).wrapping_mul(0x94D0_49BB_1331_11EB);
        z ^ (z >> 31)
    }
    fn below(&mut self, n: usize) -> usize {
        (self.next() % n as u64) as usize
    }
    fn pick<'a, T>(&mut self, v: &'a [T]) -> &'a T {
        &v[self.below(v.len())]
    }
}

const SOUP: [&str; 62] = [
    "\u{feff}", "\u{feff}1", "\u{200b}", "\u{fffe}", " 1", "1 ",
    "+", "-", "*", "/", "%", "^", "(", ")", ",", ";", "=", "!", "<", ">", "&", "|", "\"", "\\", "/*", "*/", "//", "\n", " ",
    "\t", "0", "1", "9", "e", "E", "x", ".", "a", "f", "true", "false", "math::", "str::", "len", "if", "ä", "😀", "\u{301}",
    "\u{a0}", "\u{2028}", "\u{0}", "_", "0x", "&&", "||", "==", "+=", "\r", "'", "#", "r#", "\u{7f}",
];
const TOKENS: [&str; 40] = [
    "1", "2.5", "0x1f", "1e3", "a", "f", "x", "true", "\"s\"", "\"a\\\"b\"", "(", ")", "+", "-", "*", "/", "%", "^", "!", "==", "!=",
    "<", ">", "<=", ">=", "&&", "||", "=", "+=", "-=", "*=", "/=", "%=", "^=", "&&=", "||=", ",", ";", "len", "math::sqrt",
];

fn random_source(r: &mut Rng) -> String {
    match r.below(7) {
        0 => {
            let n = r.below(25);
            (0..n).map(|_| *r.pick(&SOUP)).collect::<Vec<_>>().concat()
        },
        1 => {
            let n = 1 + r.below(10);
            (0..n).map(|_| *r.pick(&TOKENS)).collect::<Vec<_>>().join(if r.below(2) == 0 { " " } else { "" })
        },
        2 => {
            // mostly well-formed
            fn e(r: &mut Rng, d: usize) -> String {
                if d == 0 || r.below(3) == 0 {
                    return r.pick(&["1", "2.5", "a", "x", "true", "\"s\"", "0x10", "1e-3", "()", "A", "X", "True", "FALSE", "Math::PI", "\"{a}\""]).to_string();
                }
                match r.below(7) {
                    0 | 1 | 2 => format!("{} {} {}", e(r, d - 1), r.pick(&["+", "-", "*", "/", "%", "^", "==", "<", "&&", "||", ">="]), e(r, d - 1)),
                    3 => format!("({})", e(r, d - 1)),
                    // (also names that differ from a builtin only in their case or by a look-alike letter: names are kept as written)
                    4 => format!("{}({}, {})", r.pick(&["f", "max", "len", "math::pow", "if", "MAX", "Round", "Math::Abs", "str::To_Uppercase", "LEN", "If", "mаx", "ｍax", "TYPEOF", "Str::From"]), e(r, d - 1), e(r, d - 1)),
                    5 => format!("{} {} {}", r.pick(&["a", "x", "y"]), r.pick(&["=", "+=", "*="]), e(r, d - 1)),
                    _ => format!("{}; {}", e(r, d - 1), e(r, d - 1)),
                }
            }
            let d = 1 + r.below(4);
            e(r, d)
        },
        4 => {
            // many parentheses: nested, in a string literal, in a comment (all legal, all within the 4096-character bound)
            let d = 200 + r.below(700);
            match r.below(4) {
                0 => format!("{}1{}", "(".repeat(d), ")".repeat(d)),
                1 => format!("\"{}\" + \"x\"", "(".repeat(d)),
                2 => format!("1 /* {} */ + 2", "(".repeat(d)),
                _ => format!("{}a{}", "f(".repeat(d.min(600)), ")".repeat(d.min(600))),
            }
        },
        5 => {
            // string literals with line endings of every kind
            let body = (0..r.below(6)).map(|_| *r.pick(&["\r\n", "\r", "\n", "a", " ", "\n\r"])).collect::<Vec<_>>().concat();
            format!("\"{}\" + \"b\"", body)
        },
        _ => {
            let n = r.below(12);
            (0..n)
                .map(|_| loop {
                    if let Some(c) = char::from_u32(r.below(0x11_0000) as u32) {
                        break c;
                    }
                })
                .collect()
        },
    }
}

fn random_value(r: &mut Rng, depth: usize) -> Value {
    const INTS: [i64; 10] = [0, 1, -1, 42, i64::MAX, i64::MIN, 1 << 53, (1 << 53) + 1, -(1 << 62), 255];
    const FLOATS: [f64; 16] = [
        0.0, -0.0, 1.0, -2.5, 0.1, 1.0 / 3.0, 5e-324, -5e-324, f64::MIN_POSITIVE, f64::MAX, f64::MIN, f64::INFINITY,
        f64::NEG_INFINITY, f64::NAN, 9007199254740993.0, 1e-300,
    ];
    // (the last ones: text that LOOKS like an escape sequence of some notation and must come back as that very text)
    const STRS: [&str; 24] = [
        "", "a", " x ", "äb", "日本", "😀", "a\"b\\c", "/*", "//", "\n\t\r", "\u{0}", "(", "r#\"x\"#", "\u{2028}", "\\u{202e}", "\\u{200b}x", "\\n", "\\x41", "&amp;", "%41",
        "\\\\u{41}", "\u{202e}abc\u{202c}", "\u{200b}", "\\u202e",
    ];
    match r.below(if depth == 0 { 8 } else { 10 }) {
        0 => Value::Int(*r.pick(&INTS)),
        1 => Value::Int(r.next() as i64),
        2 => Value::Float(*r.pick(&FLOATS)),
        3 => {
            let f = f64::from_bits(r.next());
            // ron has one NaN token: the payload / sign of a NaN is outside what the format can carry
            Value::Float(f)
        },
        4 => Value::String(r.pick(&STRS).to_string()),
        5 => Value::String(random_source(r)),
        6 => Value::Boolean(r.below(2) == 0),
        7 => Value::Empty,
        _ => {
            // mostly short, sometimes long (8-40 elements), sometimes all numbers of mixed kinds
            let n = if r.below(4) == 0 { 8 + r.below(33) } else { r.below(4) };
            if r.below(3) == 0 {
                Value::Tuple((0..n).map(|_| if r.below(2) == 0 { Value::Int(r.below(100) as i64 - 50) } else { Value::Float(r.below(100) as f64 / 4.0) }).collect())
            } else {
                Value::Tuple((0..n).map(|_| random_value(r, depth - 1)).collect())
            }
        },
    }
}

fn same_value(a: &Value, b: &Value) -> bool {
    match (a, b) {
        (Value::Float(x), Value::Float(y)) => x.to_bits() == y.to_bits() || (x.is_nan() && y.is_nan()),
        (Value::Tuple(x), Value::Tuple(y)) => x.len() == y.len() && x.iter().zip(y).all(|(p, q)| same_value(p, q)),
        (Value::Float(_), _) | (_, Value::Float(_)) | (Value::Tuple(_), _) | (_, Value::Tuple(_)) => false,
        _ => a == b,
    }
}

/// A harness-owned mirror of the value type: the transport self-check must not go through evalexpr's own
/// (de)serialization code, or a defect there would be blamed on the transport.
#[derive(serde::Serialize, serde::Deserialize, Clone, Debug)]
enum Mirror {
    String(String),
    Float(f64),
    Int(i64),
    Boolean(bool),
    Tuple(Vec<Mirror>),
    Empty,
}

fn mirror(v: &Value) -> Mirror {
    match v {
        Value::String(s) => Mirror::String(s.clone()),
        Value::Float(f) => Mirror::Float(*f),
        Value::Int(i) => Mirror::Int(*i),
        Value::Boolean(b) => Mirror::Boolean(*b),
        Value::Tuple(t) => Mirror::Tuple(t.iter().map(mirror).collect()),
        Value::Empty => Mirror::Empty,
    }
}

fn sorted_vars(c: &Ctx) -> Vec<(String, Value)> {
    let mut v: Vec<(String, Value)> = c.iter_variables().collect();
    v.sort_by(|a, b| a.0.cmp(&b.0));
    v
}

fn main() {
    let args: Vec<String> = std::env::args().collect();
    let num = |i: usize, d: u64| args.get(i).and_then(|s| s.parse::<u64>().ok()).unwrap_or(d);
    let n_strings = num(1, 20_000);
    let n_ctx = num(2, 5_000);
    let seed = num(3, 1);
    let mut r = Rng(seed.wrapping_mul(0xA24B_AED4_963E_E407) ^ 0x51_7C_C1_B7);
    let mut mismatches = 0u64;
    let mut report = |what: String| {
        mismatches += 1;
        if mismatches <= 12 {
            println!("MISMATCH {}", what);
        }
    };
    let mut distinct: HashSet<String> = HashSet::new();
    let (mut ok_trees, mut err_trees, mut evals) = (0u64, 0u64, 0u64);
    let mut siblings = 0u64;
    let mut samples: Vec<String> = Vec::new();

    // ---- A. deserialize(serialize_as_string(s)) == build_operator_tree(s)
    let fixed = ["3", "4+4", "21^(2*2)--3>5||!true", "&", "\"", "(", "a = 1; a", "1,2;3", "/* c */ 1", "\"a\\\"b\"", "\u{feff}1", "\u{feff}", " 7", "7 ", "\n7", "\t+5", "-5", "+5", "\u{feff}a + 1", "\u{200b}2", "\"John Doe\" + x", "1 // c\n+ 2", "name == \"a b\" && f(\"c d\", 1)", "/* a b */ \"x y\""];
    for i in 0..n_strings {
        let s = if (i as usize) < fixed.len() { fixed[i as usize].to_string() } else { random_source(&mut r) };
        distinct.insert(s.clone());
        let direct = build_operator_tree::<DefaultNumericTypes>(&s);
        let quoted = match ron::ser::to_string(&s) {
            Ok(q) => q,
            Err(e) => {
                report(format!("harness: ron cannot serialize the string {:?}: {}", s, e));
                continue;
            },
        };
        // the transport itself must be right before anything is asked of evalexpr (self-check)
        match ron::de::from_str::<String>(&quoted) {
            Ok(back) if back == s => {},
            _ => continue, // ron does not carry this string faithfully: not evalexpr's business
        }
        let via_ron = ron::de::from_str::<Node>(&quoted);
        let via_str = Node::<DefaultNumericTypes>::deserialize(serde::de::value::StrDeserializer::<serde::de::value::Error>::new(&s));
        evals += 3;
        match (&direct, &via_ron, &via_str) {
            (Ok(t), Ok(a), Ok(b)) => {
                ok_trees += 1;
                if format!("{:?}", t) != format!("{:?}", a) || format!("{:?}", t) != format!("{:?}", b) {
                    report(format!("node/tree-differs: {:?}: build_operator_tree gives {:?}, deserializing gives {:?} / {:?}", s, t, a, b));
                } else if samples.len() < 3 {
                    samples.push(format!("{:?} -> same tree through ron and StrDeserializer", s));
                }
            },
            (Err(e), Err(a), Err(b)) => {
                err_trees += 1;
                let want = e.to_string();
                let ron_msg = match &a.code {
                    ron::Error::Message(m) => m.clone(),
                    other => format!("<{:?}>", other),
                };
                if ron_msg != want || b.to_string() != want {
                    report(format!("node/error-message-differs: {:?}: precompilation fails with {:?}, deserializing fails with {:?} / {:?}", s, want, ron_msg, b.to_string()));
                } else if samples.len() < 5 {
                    samples.push(format!("{:?} -> same message {:?}", s, want));
                }
            },
            _ => report(format!(
                "node/outcome-differs: {:?}: build_operator_tree {:?} but ron {:?} and StrDeserializer {:?}",
                s,
                direct.as_ref().map(|_| "Ok").map_err(|e| e.to_string()),
                via_ron.as_ref().map(|_| "Ok").map_err(|e| e.to_string()),
                via_str.as_ref().map(|_| "Ok").map_err(|e| e.to_string())
            )),
        }
        // a sibling that differs only in blanks (doubled everywhere — also inside text literals — and line breaks turned
        // into spaces) is another expression: deserialized right after the first it yields its own tree, the one a thread
        // without any history precompiles
        let sib = s.replace(' ', "  ").replace('\n', " ");
        if sib != s && i % 2 == 0 {
            let sib2 = sib.clone();
            let expected = std::thread::Builder::new().stack_size(64 << 20).spawn(move || build_operator_tree::<DefaultNumericTypes>(&sib2).map(|t| format!("{:?}", t)).map_err(|e| e.to_string())).expect("oracle thread").join();
            let _ = Node::<DefaultNumericTypes>::deserialize(serde::de::value::StrDeserializer::<serde::de::value::Error>::new(&s));
            let got = Node::<DefaultNumericTypes>::deserialize(serde::de::value::StrDeserializer::<serde::de::value::Error>::new(&sib)).map(|t| format!("{:?}", t)).map_err(|e| e.to_string());
            evals += 3;
            siblings += 1;
            match expected {
                Ok(exp) if exp == got => {},
                Ok(exp) => report(format!("node/blank-variant-after-its-sibling: {:?} deserialized and right afterwards {:?}: the second gives {:?}, a thread without history precompiles it to {:?}", s, sib, got, exp)),
                Err(_) => report(format!("harness: the oracle thread died on {:?}", sib)),
            }
        }
    }

    // ---- B. contexts reachable through the API
    // (among them names that are equal under some normalisation — zero padding, case, composed / decomposed accents,
    // trailing blanks — and still different names)
    let names = [
        "a", "b", "x", "", " ", "player.score", "$total", "a+b", "日本", "\"q\"", "math::pi", "0", "true", "f", "very_long_name_0123456789", "x1", "x01", "x001", "X1", "é",
        "e\u{301}", "a ", "A", "item10", "item010", "_", "variables", "without_builtin_functions", "::scale", "scale", "a::", "::", "a::b::c", "a::b", "b::c", "::a::b",
    ];
    let mut ctx_ok = 0u64;
    for i in 0..n_ctx {
        let mut c = Ctx::new();
        let steps = r.below(8);
        for _ in 0..steps {
            let k = if r.below(5) == 0 { random_source(&mut r) } else { r.pick(&names).to_string() };
            match r.below(10) {
                0 => {
                    c.clear_variables();
                },
                1 => {
                    let _ = c.set_function(k, Function::new(|v: &Value| Ok(v.clone())));
                },
                2 => {
                    let _ = evalexpr::eval_with_context_mut("v1 = 2; v2 = (1, 2.5, \"s\"); v1 += 40", &mut c);
                },
                _ => {
                    let v = random_value(&mut r, 2);
                    let _ = c.set_value(k, v);
                },
            }
        }
        let off = r.below(2) == 0;
        let _ = c.set_builtin_functions_disabled(off);
        if r.below(3) == 0 {
            let _ = c.set_function("f".into(), Function::new(|v: &Value| Ok(v.clone())));
        }
        // user functions named like builtins (none of them survives serialization, so the builtin is back afterwards)
        let shadowed: Vec<&str> = ["min", "len", "str::from", "math::abs", "if"].iter().copied().filter(|_| r.below(4) == 0).collect();
        for n in &shadowed {
            let _ = c.set_function(n.to_string(), Function::new(|_| Ok(Value::String("user function".into()))));
        }
        // values that are equal for `==` and still different values, side by side in one context
        if r.below(4) == 0 {
            let _ = c.set_value("t_pos".into(), Value::Tuple(vec![Value::Float(0.0), Value::Int(1)]));
            let _ = c.set_value("t_neg".into(), Value::Tuple(vec![Value::Float(-0.0), Value::Int(1)]));
            let _ = c.set_value("z_pos".into(), Value::Float(0.0));
            let _ = c.set_value("z_neg".into(), Value::Float(-0.0));
            let _ = c.set_value("t_nested_neg".into(), Value::Tuple(vec![Value::Tuple(vec![Value::Float(-0.0)]), Value::Tuple(vec![Value::Float(0.0)])]));
            let _ = c.set_value("s_a".into(), Value::String("a".into()));
            let _ = c.set_value("s_a2".into(), Value::String("a".into()));
        }
        let pretty = i % 2 == 1;
        let text = if pretty { ron::ser::to_string_pretty(&c, ron::ser::PrettyConfig::default()) } else { ron::ser::to_string(&c) };
        evals += 2;
        let text = match text {
            Ok(t) => t,
            Err(e) => {
                report(format!("context/serialize-fails: {:?}: {}", sorted_vars(&c), e));
                continue;
            },
        };
        distinct.insert(text.clone());
        // failed deserializations (truncated / damaged input) must fail cleanly and leave no state behind that
        // changes a later round trip
        if i % 2 == 0 && text.len() > 4 {
            let cut: String = text.chars().take(r.below(text.chars().count())).collect();
            let _ = ron::de::from_str::<Ctx>(&cut);
            let damaged = text.replacen("Int(", "Int(x", 1).replacen("Float(", "Float(\"", 1).replacen("String(\"", "String(", 1);
            let _ = ron::de::from_str::<Ctx>(&damaged);
            let deep = format!("(variables:{{\"t\":{}Int(1){}", "Tuple([".repeat(3), "])".repeat(2));
            let _ = ron::de::from_str::<Ctx>(&deep);
            evals += 3;
        }
        let back: Ctx = match ron::de::from_str(&text) {
            Ok(b) => b,
            Err(e) => {
                // is it the transport? a plain map with the same keys and values must then fail as well
                let plain: Vec<(String, Mirror)> = sorted_vars(&c).iter().map(|(k, v)| (k.clone(), mirror(v))).collect();
                let plain_ok = ron::ser::to_string(&plain).ok().and_then(|t| ron::de::from_str::<Vec<(String, Mirror)>>(&t).ok()).is_some();
                if plain_ok {
                    report(format!("context/deserialize-fails: {} : {}", text, e));
                }
                continue;
            },
        };
        let (a, b) = (sorted_vars(&c), sorted_vars(&back));
        let same = a.len() == b.len() && a.iter().zip(&b).all(|(p, q)| p.0 == q.0 && same_value(&p.1, &q.1));
        if !same {
            report(format!("context/variables-differ: serialized {} : before {:?} after {:?}", text, a, b));
            continue;
        }
        if back.are_builtin_functions_disabled() != off {
            report(format!("context/builtin-switch-lost: serialized {} : was disabled={}, now {}", text, off, back.are_builtin_functions_disabled()));
            continue;
        }
        let probe = back.call_function("f", &Value::Int(1));
        if !matches!(probe, Err(EvalexprError::FunctionIdentifierNotFound(_))) {
            report(format!("context/function-survived: serialized {} : f(1) = {:?}", text, probe));
            continue;
        }
        let mut survived = None;
        for n in ["min", "len", "str::from", "math::abs", "if"] {
            let p = back.call_function(n, &Value::Tuple(vec![Value::Int(1), Value::Int(2)]));
            if !matches!(p, Err(EvalexprError::FunctionIdentifierNotFound(_))) {
                survived = Some(format!("{}((1, 2)) = {:?}", n, p));
            }
        }
        if let Some(sv) = survived {
            report(format!("context/function-survived: serialized {} : the context resolves {} (user functions named like builtins were {:?})", text, sv, shadowed));
            continue;
        }
        // the round-tripped context behaves like the original for evaluation
        let e1 = format!("{:?}", evalexpr::eval_with_context("(a, b, x, typeof(a))", &c));
        let e2 = format!("{:?}", evalexpr::eval_with_context("(a, b, x, typeof(a))", &back));
        if e1 != e2 {
            report(format!("context/evaluates-differently: {} : {} vs {}", text, e1, e2));
            continue;
        }
        // … and for what happens next: the same further operations on both (type-checked writes, clears, expressions)
        {
            let mut orig = c.clone();
            let mut back2 = back.clone();
            let mut diverged: Option<String> = None;
            for _ in 0..4 {
                let k = r.pick(&names).to_string();
                let (what, ra, rb) = match r.below(5) {
                    0 => {
                        let v = random_value(&mut r, 1);
                        (format!("set_value({:?}, {:?})", k, v), format!("{:?}", orig.set_value(k.clone(), v.clone())), format!("{:?}", back2.set_value(k, v)))
                    },
                    1 => {
                        orig.clear_variables();
                        back2.clear_variables();
                        ("clear_variables()".to_string(), String::new(), String::new())
                    },
                    2 => {
                        let src = *r.pick(&["a = a + 1", "b = (1, 2)", "x += 1.5", "a = \"s\"", "x1 = x01", "v1 *= 2", "a", "typeof(b)"]);
                        (format!("eval_mut `{}`", src), format!("{:?}", evalexpr::eval_with_context_mut(src, &mut orig)), format!("{:?}", evalexpr::eval_with_context_mut(src, &mut back2)))
                    },
                    _ => {
                        let v = random_value(&mut r, 0);
                        (format!("set_value({:?}, {:?})", k, v), format!("{:?}", orig.set_value(k.clone(), v.clone())), format!("{:?}", back2.set_value(k, v)))
                    },
                };
                evals += 2;
                let (va, vb) = (sorted_vars(&orig), sorted_vars(&back2));
                let same_vars = va.len() == vb.len() && va.iter().zip(&vb).all(|(p, q)| p.0 == q.0 && same_value(&p.1, &q.1));
                // results are compared through Debug with NaN payloads normalised by Debug itself
                if ra != rb || !same_vars {
                    diverged = Some(format!("after {}: original {} / {:?}, round-tripped {} / {:?}", what, ra, va, rb, vb));
                    break;
                }
            }
            if let Some(d) = diverged {
                report(format!("context/behaves-differently-afterwards: serialized {} : {}", text, d));
                continue;
            }
        }
        // every word of the serialized text itself is a perfectly good variable name: whatever the format uses as a
        // key, marker or field name must not be confused with a variable of that name
        if i % 4 == 0 {
            let mut words: Vec<String> = Vec::new();
            let mut cur = String::new();
            let mut in_str = false;
            for ch in text.chars() {
                if ch == '"' {
                    if !cur.is_empty() {
                        words.push(std::mem::take(&mut cur));
                    }
                    in_str = !in_str;
                } else if in_str || ch.is_alphanumeric() || ch == '_' || ch == '/' || ch == ':' || ch == '#' || ch == '$' {
                    if ch != '\\' {
                        cur.push(ch);
                    }
                } else if !cur.is_empty() {
                    words.push(std::mem::take(&mut cur));
                }
            }
            words.sort();
            words.dedup();
            let mut c2 = c.clone();
            let taken: Vec<String> = sorted_vars(&c).iter().map(|(k, _)| k.clone()).collect();
            let mut added = 0;
            for (j, w) in words.iter().enumerate() {
                if !taken.contains(w) && added < 16 {
                    let _ = c2.set_value(w.clone(), Value::Int(1000 + j as i64));
                    added += 1;
                }
            }
            let t2 = if pretty { ron::ser::to_string_pretty(&c2, ron::ser::PrettyConfig::default()) } else { ron::ser::to_string(&c2) };
            evals += 2;
            if let Ok(t2) = t2 {
                match ron::de::from_str::<Ctx>(&t2) {
                    Ok(back2) => {
                        let (a, b) = (sorted_vars(&c2), sorted_vars(&back2));
                        let same = a.len() == b.len() && a.iter().zip(&b).all(|(p, q)| p.0 == q.0 && same_value(&p.1, &q.1));
                        if !same || back2.are_builtin_functions_disabled() != off {
                            report(format!(
                                "context/variables-differ: variables named like the words of the serialized form; serialized {} : before {:?} (disabled={}) after {:?} (disabled={})",
                                t2, a, off, b, back2.are_builtin_functions_disabled()
                            ));
                            continue;
                        }
                    },
                    Err(e) => {
                        report(format!("context/deserialize-fails: variables named like the words of the serialized form: {} : {}", t2, e));
                        continue;
                    },
                }
            }
        }
        ctx_ok += 1;
        if samples.len() < 8 {
            samples.push(format!("context {} round-trips", text.chars().take(160).collect::<String>()));
        }
    }
    println!(
        "{{\"strings\": {}, \"trees_ok\": {}, \"trees_err\": {}, \"blank_variant_siblings\": {}, \"contexts\": {}, \"contexts_round_tripped\": {}, \"evaluations\": {}, \"distinct\": {}, \"mismatches\": {}, \"samples\": {:?}}}",
        n_strings, ok_trees, err_trees, siblings, n_ctx, ctx_ok, evals, distinct.len(), mismatches, samples
    );
    std::process::exit(if mismatches == 0 { 0 } else { 1 });
}

//! Generators: value pools, token alphabets, exhaustive sequence decoding, random ASTs, separator plans.

use crate::refmodel::lex::{lex, Tok, ASSIGNOPS, BINOPS, WHITESPACE};
use crate::refmodel::parse::Ast;
use crate::refmodel::value::RV;
use crate::rng::Rng;

/// sizes around powers of two and common inline-buffer sizes: lengths of strings, identifiers, tuples, chains
pub const BOUNDARY_SIZES: [usize; 35] = [
    1, 2, 3, 4, 5, 7, 8, 9, 15, 16, 17, 22, 23, 24, 25, 31, 32, 33, 63, 64, 65, 127, 128, 129, 254, 255, 256, 257, 511, 512, 513, 1023, 1024, 1025, 2048,
];

pub fn int_pool() -> Vec<i64> {
    vec![
        0,
        1,
        -1,
        2,
        -2,
        3,
        7,
        10,
        63,
        64,
        65,
        -63,
        -64,
        255,
        (1 << 31) - 1,
        1 << 31,
        1 << 32,
        (1 << 53) - 1,
        1 << 53,
        (1 << 53) + 1,
        -((1 << 53) + 1),
        1 << 62,
        i64::MAX - 1,
        i64::MAX,
        i64::MIN,
        i64::MIN + 1,
        // products and cubes at the overflow boundary
        3037000499,
        3037000500,
        -3037000500,
        2097151,
        2097152,
        (1 << 32) - 1,
        (1 << 32) + 1,
        // the boundaries of the narrower integer types
        -(1 << 31),
        -(1 << 31) - 1,
        -(1 << 31) + 1,
        32767,
        -32768,
        65535,
        127,
        -128,
    ]
}

pub fn float_pool() -> Vec<f64> {
    vec![
        0.0,
        -0.0,
        1.0,
        -1.0,
        0.5,
        2.5,
        -2.5,
        0.1,
        1.0 / 3.0,
        std::f64::consts::PI,
        f64::MIN_POSITIVE,
        -f64::MIN_POSITIVE,
        5e-324,
        -5e-324,
        f64::MAX,
        f64::MIN,
        f64::INFINITY,
        f64::NEG_INFINITY,
        f64::NAN,
        9007199254740992.0,
        9007199254740994.0,
        9223372036854775808.0,
        -9223372036854775808.0,
        9223372036854774784.0,
        18446744073709551616.0,
        1e19,
        -1e19,
        2e19,
        1e300,
        1e-300,
        63.0,
        64.0,
    ]
}

pub fn string_pool() -> Vec<&'static str> {
    vec![
        "", "a", "b", "ab", "A", " x ", "äb", "日本", "ß", "İ", "é", "😀", "a\"b\\c", "/*", "//", "0", "ΟΔΥΣΣΕΥΣ", "ΣΑΣ Σ.", "ǅŉﬁ",
        "\u{3000}price\u{a0}", "ıſɐ\u{212a}ẞ", "\u{e000}", "\u{ffff}x", "\u{10000}", "e\u{301}",
        // text that other languages would interpolate, comment markers inside text, a trailing backslash, a number
        "{a}", "v{x}${y}", "a//b", "c:\\", "3",
    ]
}

pub fn tuple_pool() -> Vec<RV> {
    let i = |x| RV::Int(x);
    vec![
        RV::Tuple(vec![]),
        RV::Tuple(vec![i(1)]),
        RV::Tuple(vec![i(1), i(2)]),
        RV::Tuple(vec![i(1), i(2), i(3)]),
        RV::Tuple(vec![i(1), i(2), i(3), i(4)]),
        RV::Tuple(vec![RV::Tuple(vec![i(1), i(2)]), i(3)]),
        RV::Tuple(vec![RV::Tuple(vec![])]),
        RV::Tuple(vec![RV::Str("a".into()), RV::Float(1.0)]),
        RV::Tuple(vec![i(1), RV::Tuple(vec![i(2), i(3)])]),
        RV::Tuple(vec![i(2), RV::Empty]),
        RV::Tuple(vec![
            RV::Tuple(vec![RV::Tuple(vec![i(1), RV::Float(f64::NAN)]), RV::Empty]),
            RV::Bool(true),
        ]),
    ]
}

/// the whole edge-value pool of DESIGN §3.5
pub fn full_pool() -> Vec<RV> {
    let mut p: Vec<RV> = Vec::new();
    p.extend(int_pool().into_iter().map(RV::Int));
    p.extend(float_pool().into_iter().map(RV::Float));
    p.extend(string_pool().into_iter().map(|s| RV::Str(s.to_string())));
    p.push(RV::Bool(true));
    p.push(RV::Bool(false));
    p.push(RV::Empty);
    p.extend(tuple_pool());
    p
}

/// a 16-value sub-pool for cubic matrices in the quick tier
pub fn small_pool() -> Vec<RV> {
    vec![
        RV::Int(0),
        RV::Int(1),
        RV::Int(-1),
        RV::Int(64),
        RV::Int(i64::MAX),
        RV::Int(i64::MIN),
        RV::Float(-0.0),
        RV::Float(2.5),
        RV::Float(f64::INFINITY),
        RV::Float(f64::NAN),
        RV::Float(1e19),
        RV::Str("".into()),
        RV::Str("äb".into()),
        RV::Bool(true),
        RV::Empty,
        RV::Tuple(vec![RV::Int(1), RV::Float(2.5)]),
    ]
}

pub fn random_value(r: &mut Rng, depth: usize) -> RV {
    match r.below(if depth == 0 { 9 } else { 11 }) {
        0 | 1 => RV::Int(r.int_bitlen()),
        2 => RV::Int(*r.pick(&int_pool())),
        3 | 4 => RV::Float(r.float_bits()),
        5 => RV::Float(*r.pick(&float_pool())),
        6 => RV::Str(random_string(r, 8)),
        7 => RV::Bool(r.chance(1, 2)),
        8 => RV::Empty,
        _ => {
            let n = r.below(4);
            RV::Tuple((0..n).map(|_| random_value(r, depth - 1)).collect())
        },
    }
}

pub const STRING_CHARS: [char; 52] = [
    '{', '}', ':', '?', '$',
    '”', '“', '’', '＂', '\u{200b}', '\u{feff}',
    'a', 'b', 'Z', '0', '9', ' ', '\t', '\n', '\r', '"', '\\', '/', '*', '+', '-', '(', ')', ',', ';', '=', '!', '&', '|',
    '<', '>', '%', '^', '.', 'e', 'x', '_', 'ä', 'ß', 'İ', '日', '😀', '\u{301}', '\u{0}', '\u{a0}', '\u{2028}', '#',
];

pub fn random_string(r: &mut Rng, max: usize) -> String {
    let n = r.below(max + 1);
    let mut s = String::new();
    for _ in 0..n {
        if r.chance(1, 12) {
            // any scalar value
            loop {
                if let Some(c) = char::from_u32(r.below(0x11_0000) as u32) {
                    s.push(c);
                    break;
                }
            }
        } else {
            s.push(*r.pick(&STRING_CHARS));
        }
    }
    s
}

// ---------------------------------------------------------------------------------------------------
// token alphabets and exhaustive sequence decoding

/// Rewrites some literal tokens into another documented spelling of the same value: hexadecimal integers,
/// exponent floats. Only spellings the reference lexer reads back as the same single token are used.
pub fn respell_literals(toks: &mut [Tok], r: &mut Rng) -> usize {
    let mut n = 0;
    for t in toks.iter_mut() {
        if !r.chance(1, 2) {
            continue;
        }
        let s = match t {
            Tok::Int(i) if *i >= 0 => {
                if r.chance(1, 2) {
                    format!("0x{:x}", i)
                } else {
                    format!("0x{:X}", i)
                }
            },
            Tok::Float(f) if f.is_finite() && *f >= 0.0 => match r.below(3) {
                0 => format!("{:e}", f),
                1 => format!("{:E}", f),
                _ => format!("{:e}", f).replace("e-", "E-").replace('e', "e+").replace("e+-", "e-"),
            },
            _ => continue,
        };
        if let Ok(l) = lex(&s) {
            if l.toks.len() == 1 && !l.unclaimed && l.toks[0] == *t && l.toks[0].text() != s {
                *t = Tok::Spelled(Box::new(t.clone()), s);
                n += 1;
            }
        }
    }
    n
}

pub fn tok(s: &str) -> Tok {
    let l = lex(s).expect("alphabet token must lex");
    assert!(l.toks.len() == 1, "alphabet entry {:?} is not a single token", s);
    let t = l.toks.into_iter().next().unwrap();
    if t.text() != s {
        // `0x1e`, `1E+3`, `.5`: keep the way it is written
        Tok::Spelled(Box::new(t), s.to_string())
    } else {
        t
    }
}

/// A16 of DESIGN §3.5
pub fn alphabet16() -> Vec<Tok> {
    ["1", "a", "f", "(", ")", "+", "-", "*", "^", "!", "==", "&&", "=", "+=", ",", ";"]
        .iter()
        .map(|s| tok(s))
        .collect()
}

pub fn alphabet11() -> Vec<Tok> {
    ["1", "a", "(", ")", "+", "-", "^", "=", ",", ";", "!"].iter().map(|s| tok(s)).collect()
}

/// 23 tokens: string / bool literals and the remaining operator classes
pub fn alphabet23() -> Vec<Tok> {
    [
        "1", "2.5", "a", "f", "\"s\"", "true", "(", ")", "+", "-", "*", "/", "%", "^", "!", "<", "==", "&&", "||",
        "=", "&&=", ",", ";", "\"\\\"(\"", "and",
    ]
    .iter()
    .map(|s| tok(s))
    .collect()
}

/// every operator and punctuation token plus one of each word kind
pub fn alphabet_all() -> Vec<Tok> {
    let mut v: Vec<Tok> = crate::refmodel::lex::OPS.iter().map(|o| tok(o)).collect();
    // (the last three are words the documentation does not define; a separator must not change them either)
    for w in ["1", "2.5", "0x1f", "1e3", "a", "f", "x", "true", "\"s\"", "\"/*\"", "1e", "9223372036854775808", "0xffffffffffffffffff", "1e999", "\")\\\"\"", "\"(\"", "0x1e", "2E", "#", "#a", "\\", "a\\", "and", "or", "not", "ī", "н", ".5", "5.", "1E+3", "007", "r", "if", "“a", "b”", "‘", "math::", "a::", "\u{feff}", "_", "min", "math::pi", "mod", "xor", "in", "[", "]", "{"] {
        v.push(tok(w));
    }
    v
}

/// number of sequences of length 1..=maxlen over k symbols
pub fn seq_space(k: u64, maxlen: u32) -> u64 {
    let mut total = 0u64;
    let mut p = 1u64;
    for _ in 0..maxlen {
        p *= k;
        total += p;
    }
    total
}

/// decodes index -> sequence (all lengths 1..=maxlen, shorter ones first)
pub fn decode_seq(mut idx: u64, k: u64, maxlen: u32) -> Vec<usize> {
    let mut len = 1u32;
    let mut p = k;
    while idx >= p && len < maxlen {
        idx -= p;
        p *= k;
        len += 1;
    }
    let mut v = vec![0usize; len as usize];
    for i in (0..len as usize).rev() {
        v[i] = (idx % k) as usize;
        idx /= k;
    }
    v
}

// ---------------------------------------------------------------------------------------------------
// random ASTs (the claimed domain of C02: identifier assignment targets, non-negative literals)

pub struct AstGen<'a> {
    pub r: &'a mut Rng,
    pub vars: &'a [&'a str],
    pub funs: &'a [&'a str],
    pub allow_assign: bool,
    pub allow_seq: bool,
    /// give every identifier occurrence a distinct name (C14)
    pub distinct_names: bool,
    pub counter: usize,
    pub max_nodes: usize,
    pub nodes: usize,
}

pub fn literal_pool() -> Vec<RV> {
    vec![
        RV::Int(0),
        RV::Int(1),
        RV::Int(2),
        RV::Int(3),
        RV::Int(7),
        RV::Int(i64::MAX),
        RV::Float(0.0),
        RV::Float(0.5),
        RV::Float(2.5),
        RV::Float(1e300),
        RV::Float(5e-324),
        RV::Bool(true),
        RV::Bool(false),
        RV::Str("s".into()),
        RV::Str("".into()),
        RV::Str("a b".into()),
        // text that names variables of the program in the notations other languages interpolate
        RV::Str("l1\r\nl2\rl3".into()),
        RV::Str("Größe in \"mm\" \\ zoll".into()),
        RV::Str("{a}".into()),
        RV::Str("x is {x}, b is ${b} and #{total}".into()),
    ]
}

impl<'a> AstGen<'a> {
    fn name(&mut self, pool: &[&str], prefix: &str) -> String {
        if self.distinct_names {
            self.counter += 1;
            format!("{}{}", prefix, self.counter)
        } else {
            self.r.pick(pool).to_string()
        }
    }

    pub fn leaf(&mut self) -> Ast {
        self.nodes += 1;
        match self.r.below(10) {
            0..=3 => Ast::Const(self.r.pick(&literal_pool()).clone()),
            4..=8 => {
                let vars = self.vars;
                Ast::Read(self.name(vars, "v"))
            },
            _ => Ast::Empty,
        }
    }

    pub fn expr(&mut self, depth: usize) -> Ast {
        if depth == 0 || self.nodes >= self.max_nodes || self.r.chance(1, 5) {
            return self.leaf();
        }
        self.nodes += 1;
        let d = depth - 1;
        match self.r.below(20) {
            0..=8 => {
                let op = *self.r.pick(&BINOPS);
                let a = self.expr(d);
                let b = self.expr(d);
                Ast::Bin(op, Box::new(a), Box::new(b))
            },
            9 | 10 => {
                let op = if self.r.chance(1, 2) { "neg" } else { "!" };
                Ast::Un(op, Box::new(self.expr(d)))
            },
            11 | 12 | 13 => {
                let funs = self.funs;
                let f = self.name(funs, "g");
                Ast::Call(f, Box::new(self.expr(d)))
            },
            14 | 15 if self.allow_assign => {
                let op = *self.r.pick(&ASSIGNOPS);
                let vars = self.vars;
                let t = self.name(vars, "v");
                Ast::Assign(op, t, Box::new(self.expr(d)))
            },
            16 | 17 if self.allow_seq => {
                let n = self.r.range(2, 4);
                Ast::Tuple((0..n).map(|_| self.expr(d)).collect())
            },
            18 | 19 if self.allow_seq => {
                let n = self.r.range(2, 4);
                Ast::Chain((0..n).map(|_| self.expr(d)).collect())
            },
            _ => {
                let op = *self.r.pick(&BINOPS);
                let a = self.expr(d);
                let b = self.expr(d);
                Ast::Bin(op, Box::new(a), Box::new(b))
            },
        }
    }
}

// ---------------------------------------------------------------------------------------------------
// separator plans (RefRender for token lists)

pub const BLOCK_COMMENTS: [&str; 12] = [
    "/**/", "/* x */", "/*\"*/", "/* // */", "/***/", "/*/ */", "/* \n */", "/* a = 1; */", "/* café */", "/*日本*/", "/* 😀\u{301} */",
    "/*\r+ 1\r\n*/",
];
pub const LINE_COMMENTS: [&str; 8] = [
    "//\n", "// x */ /* \n", "//\"\n", "///\n", "// one\r+ 2\n", "//\r\n", "// café 日本 + 1\n", "// \u{2028}+ 1\u{85}- 2\n",
];

/// characters a comment body is drawn from (anything goes inside a comment)
const COMMENT_CHARS: [char; 40] = [
    '\u{0}', '\u{1}', '\u{7f}', '\u{1b}', '\u{202a}', '\u{202e}', '\u{2066}', '\u{2069}', '\u{200f}', '\u{feff}', '#', '\'',
    'a', '1', ' ', '+', '-', '*', '/', '=', '"', '\\', '(', ')', ';', ',', '\r', '\t', 'é', '日', '😀', '\u{301}', '\u{2028}', '\u{85}',
    '\u{b}', '&', '|', '<', 'e', '.',
];

fn random_comment(r: &mut Rng, block: bool) -> String {
    let n = r.below(8);
    let mut body = String::new();
    for _ in 0..n {
        body.push(*r.pick(&COMMENT_CHARS));
    }
    if block {
        // the body must not close the comment itself
        while body.contains("*/") {
            body = body.replace("*/", "* /");
        }
        if body.ends_with('*') {
            body.push(' ');
        }
        format!("/*{}*/", body)
    } else {
        format!("//{}\n", body)
    }
}

fn is_tight(t: &Tok) -> bool {
    t.is_op("(") || t.is_op(")") || t.is_op(",") || t.is_op(";") || matches!(t, Tok::Str(_))
}

fn digit_initial_word(t: &Tok) -> bool {
    t.is_word() && t.text().chars().next().map_or(false, |c| c.is_ascii_digit() || c == '.')
}

/// May the gap between `a` and `b` be empty?  Deliberately conservative (DESIGN §3.1): at least one neighbour is
/// `( ) , ;` or a string literal, or one is a word and the other an operator — except a sign directly after a
/// digit-initial word ending in e/E (the signed-exponent join).  The caller additionally re-lexes the whole rendering
/// with the reference lexer and discards it unless it yields the same token list.
pub fn may_be_empty(a: &Tok, b: &Tok) -> bool {
    may_be_empty_opt(a, b, true)
}

/// `strict = false` drops the mantissa-e restriction (the caller's re-lex check then decides)
pub fn may_be_empty_opt(a: &Tok, b: &Tok, strict: bool) -> bool {
    if is_tight(a) || is_tight(b) {
        return true;
    }
    // word followed by operator: `1e` + `-` (+ digits) would fuse into a float, so a digit-initial word ending in
    // e/E never touches a following sign; everything else is separated by the operator character itself
    let word_then_op = |w: &Tok, o: &Tok| -> bool {
        if !w.is_word() {
            return false;
        }
        match o {
            Tok::Op(op) => {
                let t = w.text();
                let mantissa_e = digit_initial_word(w) && (t.ends_with('e') || t.ends_with('E'));
                !(strict && mantissa_e && (op.starts_with('+') || op.starts_with('-')))
            },
            _ => false,
        }
    };
    // operator followed by word: no operator character can start or extend a word
    let op_then_word = |o: &Tok, w: &Tok| -> bool { matches!(o, Tok::Op(_)) && w.is_word() };
    word_then_op(a, b) || op_then_word(a, b)
}

/// One random separator (never empty). `prev_is_slash`: the token before the gap ends in `/`, so the separator
/// must not begin with a comment (it would become `//`).
pub fn random_separator(r: &mut Rng, prev_is_slash: bool, last_gap: bool) -> String {
    let mut s = String::new();
    let parts = 1 + r.below(3);
    for i in 0..parts {
        let first = i == 0;
        match r.below(9) {
            0 | 1 | 2 => s.push(*r.pick(&WHITESPACE)),
            3 | 4 => {
                if first && prev_is_slash {
                    s.push(*r.pick(&WHITESPACE));
                }
                if r.chance(1, 2) {
                    s.push_str(*r.pick(&BLOCK_COMMENTS[..]));
                } else {
                    s.push_str(&random_comment(r, true));
                }
            },
            5 => {
                if first && prev_is_slash {
                    s.push(*r.pick(&WHITESPACE));
                }
                if r.chance(1, 2) {
                    s.push_str(*r.pick(&LINE_COMMENTS[..]));
                } else {
                    s.push_str(&random_comment(r, false));
                }
            },
            6 => {
                for _ in 0..r.below(4) + 1 {
                    s.push(*r.pick(&WHITESPACE));
                }
            },
            _ => s.push(' '),
        }
    }
    if last_gap && r.chance(1, 4) {
        s.push_str("// trailing comment without newline");
    }
    s
}

fn ends_in_slash(t: &Tok) -> bool {
    t.is_op("/")
}

/// Renders a token list under a random separator plan; gaps may be empty only where `may_be_empty` allows.
/// Returns None if the rendering does not re-lex to the same token list (then the plan is simply not used).
pub fn render_with_plan(toks: &[Tok], r: &mut Rng, allow_empty: bool) -> Option<String> {
    let mut s = String::new();
    if r.chance(1, 3) {
        s.push_str(&random_separator(r, false, false));
    }
    for (i, t) in toks.iter().enumerate() {
        s.push_str(&t.text());
        if i + 1 < toks.len() {
            let n = &toks[i + 1];
            if allow_empty && may_be_empty(t, n) && r.chance(1, 2) {
                // empty gap
            } else {
                s.push_str(&random_separator(r, ends_in_slash(t), false));
            }
        }
    }
    if r.chance(1, 3) {
        let prev_slash = toks.last().map_or(false, ends_in_slash);
        s.push_str(&random_separator(r, prev_slash, true));
    }
    match lex(&s) {
        Ok(l) if l.toks.len() == toks.len() && l.toks.iter().zip(toks).all(|(a, b)| a == b) => Some(s),
        _ => None,
    }
}

/// canonical rendering: single spaces
pub fn render_canonical(toks: &[Tok]) -> String {
    crate::refmodel::lex::render_spaced(toks)
}

/// tightest rendering: empty gaps wherever allowed, single space elsewhere
pub fn render_tight(toks: &[Tok]) -> String {
    // first attempt: also operator against operator (`2**3`, `a*-b`, `!-x`); the re-lex below throws the attempt away
    // whenever two operator characters would fuse (`= =`, `& &`, `/ *`, `/ /`, …)
    for (strict, op_op) in [(false, true), (false, false), (true, false)] {
        let mut s = String::new();
        for (i, t) in toks.iter().enumerate() {
            s.push_str(&t.text());
            if i + 1 < toks.len() {
                let both_ops = op_op && matches!(t, Tok::Op(_)) && matches!(&toks[i + 1], Tok::Op(_));
                if !both_ops && !may_be_empty_opt(t, &toks[i + 1], strict) {
                    s.push(' ');
                }
            }
        }
        if let Ok(l) = lex(&s) {
            if l.toks.len() == toks.len() && l.toks.iter().zip(toks).all(|(a, b)| a == b) {
                return s;
            }
        }
    }
    render_canonical(toks)
}

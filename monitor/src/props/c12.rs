//! C12 — all evaluation entry points are views of one evaluator.

use super::c08::{random_model, random_program};
use crate::api::{self, Ctx};
use crate::fw::{Cfg, Out, Phase};
use crate::gen;
use crate::observe::{self, guard, PanicInfo};
use crate::refmodel::lex::{render_spaced, Tok};
use crate::refmodel::parse::{render_ast, Parens};
use crate::rng::Rng;
use evalexpr::{build_operator_tree, DefaultNumericTypes, EvalexprError, Node, Value};

type E = EvalexprError<DefaultNumericTypes>;
type R<T> = Result<T, E>;

/// what an entry point returned, as text (Debug is NaN-aware and structural: see refmodel::errs::same_debug)
fn show<T: std::fmt::Debug>(r: &Result<R<T>, PanicInfo>) -> String {
    match r {
        Ok(v) => format!("{:?}", v),
        Err(p) => format!("PANIC {}", api::panic_text(p)),
    }
}

/// the 12-line projection table, written with the enum variants directly (not the crate's constructors)
fn proj_string(r: &R<Value>) -> R<String> {
    match r.clone() {
        Ok(Value::String(s)) => Ok(s),
        Ok(v) => Err(EvalexprError::ExpectedString { actual: v }),
        Err(e) => Err(e),
    }
}
fn proj_int(r: &R<Value>) -> R<i64> {
    match r.clone() {
        Ok(Value::Int(i)) => Ok(i),
        Ok(v) => Err(EvalexprError::ExpectedInt { actual: v }),
        Err(e) => Err(e),
    }
}
fn proj_float(r: &R<Value>) -> R<f64> {
    match r.clone() {
        Ok(Value::Float(f)) => Ok(f),
        Ok(v) => Err(EvalexprError::ExpectedFloat { actual: v }),
        Err(e) => Err(e),
    }
}
fn proj_number(r: &R<Value>) -> R<f64> {
    match r.clone() {
        Ok(Value::Int(i)) => Ok(i as f64),
        Ok(Value::Float(f)) => Ok(f),
        Ok(v) => Err(EvalexprError::ExpectedNumber { actual: v }),
        Err(e) => Err(e),
    }
}
fn proj_boolean(r: &R<Value>) -> R<bool> {
    match r.clone() {
        Ok(Value::Boolean(b)) => Ok(b),
        Ok(v) => Err(EvalexprError::ExpectedBoolean { actual: v }),
        Err(e) => Err(e),
    }
}
fn proj_tuple(r: &R<Value>) -> R<Vec<Value>> {
    match r.clone() {
        Ok(Value::Tuple(t)) => Ok(t),
        Ok(v) => Err(EvalexprError::ExpectedTuple { actual: v }),
        Err(e) => Err(e),
    }
}
fn proj_empty(r: &R<Value>) -> R<()> {
    match r.clone() {
        Ok(Value::Empty) => Ok(()),
        Ok(v) => Err(EvalexprError::ExpectedEmpty { actual: v }),
        Err(e) => Err(e),
    }
}

struct Checker<'a> {
    out: &'a mut Out,
    src: &'a str,
    ctx_desc: String,
    n: u64,
}

impl<'a> Checker<'a> {
    fn expect<T: std::fmt::Debug>(&mut self, entry: &str, want: &R<T>, got: Result<R<T>, PanicInfo>) {
        self.n += 1;
        let w = format!("{:?}", want);
        let g = show(&got);
        if w != g {
            self.out.violation(
                &format!("entry-point/{}", entry),
                format!("{}   [{}]", self.src, self.ctx_desc),
                w,
                g,
            );
        }
    }
    fn same_ctx(&mut self, entry: &str, want: &Ctx, got: &Ctx) {
        let (a, b) = (api::ctx_vars(want), api::ctx_vars(got));
        if !api::same_vars(&a, &b) {
            self.out.violation(
                &format!("entry-point/{}/final-context", entry),
                format!("{}   [{}]", self.src, self.ctx_desc),
                api::show_vars(&a),
                api::show_vars(&b),
            );
        }
    }
}

macro_rules! typed {
    ($ck:expr, $name:expr, $proj:ident, $base:expr, $call:expr) => {{
        let want = $proj($base);
        let got = guard(|| $call);
        $ck.expect($name, &want, got);
    }};
}

pub fn check_pair(out: &mut Out, src: &str, c0: &Ctx, ctx_desc: String) {
    check_pair_with(out, src, c0, ctx_desc, None)
}

/// `reused`: a tree precompiled from the same source earlier and already evaluated against other contexts
pub fn check_pair_with(out: &mut Out, src: &str, c0: &Ctx, ctx_desc: String, reused: Option<&Node>) {
    out.begin(|| format!("{}   [{}]", src, ctx_desc));
    // the one evaluator: untyped, mutable, string level
    let mut cm = c0.clone();
    let base_mut = match guard(|| evalexpr::eval_with_context_mut(src, &mut cm)) {
        Ok(r) => r,
        Err(p) => {
            out.violation("panic", src.to_string(), "Ok or Err".into(), api::panic_text(&p));
            return;
        },
    };
    let base_imm = match guard(|| evalexpr::eval_with_context(src, &c0.clone())) {
        Ok(r) => r,
        Err(p) => {
            out.violation("panic", src.to_string(), "Ok or Err".into(), api::panic_text(&p));
            return;
        },
    };
    // "a fresh empty context": a new one, or one whose earlier bindings (of other types) were cleared
    let mut fresh = if src.len() % 2 == 0 { Ctx::new() } else { api::used_then_cleared(&[], src.len() % 4 == 1) };
    let base_free = match guard(|| evalexpr::eval_with_context_mut(src, &mut fresh)) {
        Ok(r) => r,
        Err(p) => {
            out.violation("panic", src.to_string(), "Ok or Err".into(), api::panic_text(&p));
            return;
        },
    };
    out.evals(3);
    let fresh_tree: R<Node> = match guard(|| build_operator_tree::<DefaultNumericTypes>(src)) {
        Ok(t) => t,
        Err(p) => {
            out.violation("panic", src.to_string(), "Ok or Err".into(), api::panic_text(&p));
            return;
        },
    };
    // tree-level entry points run on the reused tree if there is one (it must behave like a fresh one)
    let tree: R<&Node> = match (&fresh_tree, reused) {
        (Ok(_), Some(t)) => Ok(t),
        (Ok(t), None) => Ok(t),
        (Err(e), _) => Err(e.clone()),
    };
    let outcome = match &base_mut {
        Ok(v) => format!("Ok:{:?}", crate::refmodel::value::RV::from_value(v).ty()),
        Err(e) => crate::refmodel::errs::variant_name(e),
    };
    out.seen("outcome variants met by every entry point", &outcome);
    out.nontrivial(&format!("{}|{}", src, ctx_desc));
    let mut ck = Checker {
        out,
        src,
        ctx_desc,
        n: 0,
    };
    // a repeat from an equal context state gives an equal result
    {
        let mut c = c0.clone();
        let again = guard(|| evalexpr::eval_with_context_mut(src, &mut c));
        ck.expect("eval_with_context_mut (repeat)", &base_mut, again);
        ck.same_ctx("eval_with_context_mut (repeat)", &cm, &c);
    }
    // precompilation fails iff every entry point returns that same error
    if let Err(e) = &fresh_tree {
        let want: R<Value> = Err(e.clone());
        ck.expect("eval_with_context_mut vs build_operator_tree error", &want, Ok(base_mut.clone()));
        ck.expect("eval_with_context vs build_operator_tree error", &want, Ok(base_imm.clone()));
        ck.expect("eval vs build_operator_tree error", &want, Ok(base_free.clone()));
    }
    // (every read-only call gets a clone of the context as well: a user function may keep state of its own behind a
    // shared reference, and every entry point is to start from the same state)
    // ---- string level
    ck.expect("eval", &base_free, guard(|| evalexpr::eval(src)));
    typed!(ck, "eval_string", proj_string, &base_free, evalexpr::eval_string(src));
    typed!(ck, "eval_int", proj_int, &base_free, evalexpr::eval_int(src));
    typed!(ck, "eval_float", proj_float, &base_free, evalexpr::eval_float(src));
    typed!(ck, "eval_number", proj_number, &base_free, evalexpr::eval_number(src));
    typed!(ck, "eval_boolean", proj_boolean, &base_free, evalexpr::eval_boolean(src));
    typed!(ck, "eval_tuple", proj_tuple, &base_free, evalexpr::eval_tuple(src));
    typed!(ck, "eval_empty", proj_empty, &base_free, evalexpr::eval_empty(src));
    typed!(ck, "eval_string_with_context", proj_string, &base_imm, evalexpr::eval_string_with_context(src, &c0.clone()));
    typed!(ck, "eval_int_with_context", proj_int, &base_imm, evalexpr::eval_int_with_context(src, &c0.clone()));
    typed!(ck, "eval_float_with_context", proj_float, &base_imm, evalexpr::eval_float_with_context(src, &c0.clone()));
    typed!(ck, "eval_number_with_context", proj_number, &base_imm, evalexpr::eval_number_with_context(src, &c0.clone()));
    typed!(ck, "eval_boolean_with_context", proj_boolean, &base_imm, evalexpr::eval_boolean_with_context(src, &c0.clone()));
    typed!(ck, "eval_tuple_with_context", proj_tuple, &base_imm, evalexpr::eval_tuple_with_context(src, &c0.clone()));
    typed!(ck, "eval_empty_with_context", proj_empty, &base_imm, evalexpr::eval_empty_with_context(src, &c0.clone()));
    macro_rules! typed_mut {
        ($name:expr, $proj:ident, $f:path) => {{
            let mut c = c0.clone();
            let want = $proj(&base_mut);
            let got = guard(|| $f(src, &mut c));
            ck.expect($name, &want, got);
            ck.same_ctx($name, &cm, &c);
        }};
    }
    typed_mut!("eval_string_with_context_mut", proj_string, evalexpr::eval_string_with_context_mut);
    typed_mut!("eval_int_with_context_mut", proj_int, evalexpr::eval_int_with_context_mut);
    typed_mut!("eval_float_with_context_mut", proj_float, evalexpr::eval_float_with_context_mut);
    typed_mut!("eval_number_with_context_mut", proj_number, evalexpr::eval_number_with_context_mut);
    typed_mut!("eval_boolean_with_context_mut", proj_boolean, evalexpr::eval_boolean_with_context_mut);
    typed_mut!("eval_tuple_with_context_mut", proj_tuple, evalexpr::eval_tuple_with_context_mut);
    typed_mut!("eval_empty_with_context_mut", proj_empty, evalexpr::eval_empty_with_context_mut);
    // ---- tree level: precompiling and then evaluating gives the same outcome as evaluating the string
    if let Ok(t) = tree {
        ck.expect("Node::eval", &base_free, guard(|| t.eval()));
        typed!(ck, "Node::eval_string", proj_string, &base_free, t.eval_string());
        typed!(ck, "Node::eval_int", proj_int, &base_free, t.eval_int());
        typed!(ck, "Node::eval_float", proj_float, &base_free, t.eval_float());
        typed!(ck, "Node::eval_number", proj_number, &base_free, t.eval_number());
        typed!(ck, "Node::eval_boolean", proj_boolean, &base_free, t.eval_boolean());
        typed!(ck, "Node::eval_tuple", proj_tuple, &base_free, t.eval_tuple());
        typed!(ck, "Node::eval_empty", proj_empty, &base_free, t.eval_empty());
        ck.expect("Node::eval_with_context", &base_imm, guard(|| t.eval_with_context(&c0.clone())));
        typed!(ck, "Node::eval_string_with_context", proj_string, &base_imm, t.eval_string_with_context(&c0.clone()));
        typed!(ck, "Node::eval_int_with_context", proj_int, &base_imm, t.eval_int_with_context(&c0.clone()));
        typed!(ck, "Node::eval_float_with_context", proj_float, &base_imm, t.eval_float_with_context(&c0.clone()));
        typed!(ck, "Node::eval_number_with_context", proj_number, &base_imm, t.eval_number_with_context(&c0.clone()));
        typed!(ck, "Node::eval_boolean_with_context", proj_boolean, &base_imm, t.eval_boolean_with_context(&c0.clone()));
        typed!(ck, "Node::eval_tuple_with_context", proj_tuple, &base_imm, t.eval_tuple_with_context(&c0.clone()));
        typed!(ck, "Node::eval_empty_with_context", proj_empty, &base_imm, t.eval_empty_with_context(&c0.clone()));
        macro_rules! tree_mut {
            ($name:expr, $proj:ident, $m:ident) => {{
                let mut c = c0.clone();
                let want = $proj(&base_mut);
                let got = guard(|| t.$m(&mut c));
                ck.expect($name, &want, got);
                ck.same_ctx($name, &cm, &c);
            }};
        }
        {
            let mut c = c0.clone();
            let got = guard(|| t.eval_with_context_mut(&mut c));
            ck.expect("Node::eval_with_context_mut", &base_mut, got);
            ck.same_ctx("Node::eval_with_context_mut", &cm, &c);
        }
        tree_mut!("Node::eval_string_with_context_mut", proj_string, eval_string_with_context_mut);
        tree_mut!("Node::eval_int_with_context_mut", proj_int, eval_int_with_context_mut);
        tree_mut!("Node::eval_float_with_context_mut", proj_float, eval_float_with_context_mut);
        tree_mut!("Node::eval_number_with_context_mut", proj_number, eval_number_with_context_mut);
        tree_mut!("Node::eval_boolean_with_context_mut", proj_boolean, eval_boolean_with_context_mut);
        tree_mut!("Node::eval_tuple_with_context_mut", proj_tuple, eval_tuple_with_context_mut);
        tree_mut!("Node::eval_empty_with_context_mut", proj_empty, eval_empty_with_context_mut);
        // a node inside the tree is an expression of its own: the typed views of up to four inner nodes are the
        // projections of the untyped evaluation of that node
        let inner: Vec<&Node> = t.iter().collect();
        let stride = (inner.len() / 4).max(1);
        for node in inner.iter().step_by(stride).take(4) {
            let base: R<Value> = match guard(|| node.eval_with_context(&c0.clone())) {
                Ok(b) => b,
                Err(p) => {
                    ck.out.violation("panic", src.to_string(), "Ok or Err".into(), api::panic_text(&p));
                    break;
                },
            };
            typed!(ck, "inner node: Node::eval_string_with_context", proj_string, &base, node.eval_string_with_context(&c0.clone()));
            typed!(ck, "inner node: Node::eval_int_with_context", proj_int, &base, node.eval_int_with_context(&c0.clone()));
            typed!(ck, "inner node: Node::eval_float_with_context", proj_float, &base, node.eval_float_with_context(&c0.clone()));
            typed!(ck, "inner node: Node::eval_number_with_context", proj_number, &base, node.eval_number_with_context(&c0.clone()));
            typed!(ck, "inner node: Node::eval_boolean_with_context", proj_boolean, &base, node.eval_boolean_with_context(&c0.clone()));
            typed!(ck, "inner node: Node::eval_tuple_with_context", proj_tuple, &base, node.eval_tuple_with_context(&c0.clone()));
            typed!(ck, "inner node: Node::eval_empty_with_context", proj_empty, &base, node.eval_empty_with_context(&c0.clone()));
            let mut cb = c0.clone();
            let base_m: R<Value> = match guard(|| node.eval_with_context_mut(&mut cb)) {
                Ok(b) => b,
                Err(p) => {
                    ck.out.violation("panic", src.to_string(), "Ok or Err".into(), api::panic_text(&p));
                    break;
                },
            };
            macro_rules! inner_mut {
                ($name:expr, $proj:ident, $m:ident) => {{
                    let mut c = c0.clone();
                    let want = $proj(&base_m);
                    let got = guard(|| node.$m(&mut c));
                    ck.expect($name, &want, got);
                    ck.same_ctx($name, &cb, &c);
                }};
            }
            inner_mut!("inner node: Node::eval_string_with_context_mut", proj_string, eval_string_with_context_mut);
            inner_mut!("inner node: Node::eval_int_with_context_mut", proj_int, eval_int_with_context_mut);
            inner_mut!("inner node: Node::eval_float_with_context_mut", proj_float, eval_float_with_context_mut);
            inner_mut!("inner node: Node::eval_number_with_context_mut", proj_number, eval_number_with_context_mut);
            inner_mut!("inner node: Node::eval_boolean_with_context_mut", proj_boolean, eval_boolean_with_context_mut);
            inner_mut!("inner node: Node::eval_tuple_with_context_mut", proj_tuple, eval_tuple_with_context_mut);
            inner_mut!("inner node: Node::eval_empty_with_context_mut", proj_empty, eval_empty_with_context_mut);
        }
    }
    let n = ck.n;
    out.evals(n);
    out.sample(|| format!("`{}`: {} entry points agree on {:?}", src, n, base_mut));
}

pub fn hostile_string(r: &mut Rng, max: usize) -> String {
    // char soup weighted towards operator characters, quotes, comment markers, digits
    const SOUP: [&str; 82] = [
        // digits of other scripts, digit-like characters, separators people put into numbers
        "٣", "１", "²", "½", "〇", "०", "Ⅷ", "_", "_", "'", "1_0", "١_٠", "１_０", "²_²", "1e", ":",
        "\"\\u{D800}\"", "\"\\u{110000}\"", "\"\\x41\"", "\"\\u{41}\"", "\"\\u{FFFFFFFFF}\"", "\"\\0\"",
        "\\u{D800}", "\\u{41}", "\\x41", "\\n", "\\u{110000}", "\"\\u{", "\r\n", "\r", "\u{b}", "\u{85}", "\\\"", "\"\\\\\"",
        "+", "-", "*", "/", "%", "^", "(", ")", ",", ";", "=", "!", "<", ">", "&", "|", "\"", "\\", "/*", "*/", "//",
        "\n", " ", "\t", "0", "1", "9", "e", "E", "x", ".", "a", "f", "true", "false", "math::", "str::", "len", "if",
        "ä", "😀", "\u{301}", "\u{a0}", "\u{2028}", "\u{0}", "_", "0x", "&&",
    ];
    let n = r.below(max + 1);
    let mut s = String::new();
    for _ in 0..n {
        if r.chance(1, 20) {
            if let Some(c) = char::from_u32(r.below(0x11_0000) as u32) {
                s.push(c);
            }
        } else {
            s.push_str(SOUP[r.below(SOUP.len())]);
        }
    }
    s
}

struct Pairs {
    n: u64,
    /// recently used sources with their precompiled trees, reused under later contexts
    recent: Vec<(String, Node)>,
}

impl Phase for Pairs {
    fn name(&self) -> String {
        "strings x 48 entry points".into()
    }
    fn len(&self) -> u64 {
        self.n
    }
    fn run(&mut self, _idx: u64, r: &mut Rng, out: &mut Out) {
        if !self.recent.is_empty() && r.chance(1, 3) {
            // an earlier source, its old tree, a new context
            let k = r.below(self.recent.len());
            let (src, tree) = self.recent[k].clone_pair();
            let model = random_model(r);
            let log = observe::new_log();
            let c0 = api::ctx_from_model(&model, &log);
            out.count("reused precompiled trees");
            if r.chance(1, 3) {
                // the tree arrives through `clone_from` over another (longer, shorter, differently shaped) old tree
                let other = r.below(self.recent.len());
                let mut t2: Node = self.recent[other].1.clone();
                t2.clone_from(tree);
                out.count("trees received through clone_from");
                check_pair_with(out, &src, &c0, format!("context {}; builtins {}; tree received through clone_from over the tree of `{}`", model.show_vars(), if model.builtins_off { "off" } else { "on" }, self.recent[other].0), Some(&t2));
                return;
            }
            check_pair_with(out, &src, &c0, format!("context {}; builtins {}; functions {:?}; reused tree", model.show_vars(), if model.builtins_off { "off" } else { "on" }, model.funs.keys().collect::<Vec<_>>()), Some(tree));
            return;
        }
        let src = match r.below(10) {
            0..=5 => {
                let ast = random_program(r, 6);
                let mode = if r.chance(1, 2) { Parens::Minimal } else { Parens::Random };
                render_spaced(&render_ast(&ast, mode, Some(r), true))
            },
            6 | 7 => {
                // token soup (mostly malformed)
                let alpha = gen::alphabet_all();
                let n = r.range(1, 8);
                let toks: Vec<Tok> = (0..n).map(|_| r.pick(&alpha).clone()).collect();
                render_spaced(&toks)
            },
            8 => {
                // a value-producing snippet of each type, so that every Ok variant meets every entry point
                r.pick(&["\"str\"", "4", "2.5", "true", "(1, 2.5, \"x\")", "()", "x = 3", "1;", "len(\"abc\")", "1/0", "nosuch(1)", "u", "5 + 1.0", "\"a\" + \"b\"", "(1,2) == (1,2)", "!true", "x0", "x1 = x0", "min(4, 2)", "len(\"abc\") + 1", "typeof(x)", "max(1, 3) == 3", "x", "y", "x2", "math::pi", "math::e + 1", "math::tau", "PI", "E", "pi", "e", "nan", "inf", "a = math::pi", "answer", "version", "_", "x == x", "x0 == x0", "x1 != x1", "x2 == x2", "(x, 1) == (x, 1)", "x >= x",
                    // assignment targets that are not identifiers in the source text
                    "\"a\" = 5; a * 2", "\"x\" = 1; x", "(\"a\") = 2; a", "\"x\" += 1", "\"a\" = 5", "\"a b\" = 1", "str::from(\"x\") = 4; x", "(x) = 3; x",
                    // user functions that re-enter the library, some of them more than 64 levels deep
                    "tick(); seen = true; tick() == 2", "tick() + tick() * 10", "x = tick(); tick()", "tick() == 1", "(tick(), tick(), tick())", "tick(); 1 / 0", "if(tick() == 1, tick(), tick())",
                    "if(1 < 2, \"small\", (1 / 0; \"big\"))", "if(true, 1, y = 2)", "if(false, x = 1, 2); x",
                    "deep(70)", "deep(3) + deep(65)", "deep(80) == 80", "nest(1)", "deep(81)", "len(\"a\r\nb\")", "\"l1\r\nl2\" + \"\r\""])
                    .to_string()
            },
            9 if r.chance(1, 2) => {
                // numeric-looking strings: optional blanks and sign around a literal (where fast paths like to hide)
                let body = match r.below(8) {
                    0 => format!("{}", r.int_bitlen().unsigned_abs()),
                    1 => "9223372036854775808".to_string(),
                    2 => "9223372036854775807".to_string(),
                    3 => format!("0x{:x}", r.next() >> r.below(64)),
                    4 => format!("{:?}", f64::from_bits(r.next() & 0x7fff_ffff_ffff_ffff)),
                    5 => format!("{}", r.below(1000)),
                    6 => "1_000".to_string(),
                    _ => format!("{}.{}", r.below(100), r.below(100)),
                };
                let sign = *r.pick(&["", "", "-", "+", "- ", "--", "!", "+ "]);
                // (also as the right-hand side of a one-statement assignment, and the words that are no numbers)
                let body = if r.chance(1, 8) { (*r.pick(&["inf", "nan", "infinity", "NaN", "Inf", "1e999", "0x", "1e", "e1"])).to_string() } else { body };
                let pre = *r.pick(&["", "", " ", "\t", "\n", "x = ", "x=", "a = ", "x2 += "]);
                let post = *r.pick(&["", "", " ", "\n", ";", " // c"]);
                format!("{}{}{}{}", pre, sign, body, post)
            },
            _ => hostile_string(r, 24),
        };
        // a byte-order mark or zero-width space in front is part of the first word, for every entry point alike
        let src = if r.chance(1, 25) { format!("{}{}", r.pick(&["\u{feff}", "\u{200b}", "\u{feff} "]), src) } else { src };
        // deep nesting (130-900 levels, inside the 4096-character bound): every entry point or none
        let src = if r.chance(1, 60) {
            let d = r.range(130, 900);
            match r.below(3) {
                0 => format!("{}1{}", "(".repeat(d), ")".repeat(d)),
                1 => format!("{}x{}", "id(".repeat(d.min(600)), ")".repeat(d.min(600))),
                _ => format!("{}true", "!".repeat(d)),
            }
        } else {
            src
        };
        let model = random_model(r);
        let log = observe::new_log();
        let mut c0 = api::ctx_from_model(&model, &log);
        // a function with state of its own (every entry point starts from a clone of this context, state included)
        observe::register_counter(&mut c0, "tick");
        let mut extra = String::new();
        if r.chance(1, 16) {
            // contexts accept any string as a name: a variable named like the whole source text (or its trimmed form)
            // is still not what the source text means
            use evalexpr::ContextWithMutableVariables;
            let name = if r.chance(1, 2) { src.trim().to_string() } else { src.clone() };
            if !name.is_empty() && crate::refmodel::lex::lex(&name).map_or(true, |t| !t.unclaimed && (t.toks.len() != 1 || !matches!(t.toks[0].inner(), Tok::Ident(_)))) {
                let _ = c0.set_value(name.clone(), evalexpr::Value::Int(424242));
                extra = format!("; plus a variable named {:?} = 424242", name);
                out.count("contexts with a variable named like the source text");
            }
        }
        check_pair(out, &src, &c0, format!("context {}; builtins {}{}", model.show_vars(), if model.builtins_off { "off" } else { "on" }, extra));
        // keep the tree (now evaluated once) for reuse under other contexts
        if let Ok(Ok(t)) = guard(|| build_operator_tree::<DefaultNumericTypes>(&src)) {
            let mut warm = c0.clone();
            let _ = guard(|| t.eval_with_context_mut(&mut warm));
            if self.recent.len() < 64 {
                self.recent.push((src, t));
            } else {
                let k = r.below(64);
                self.recent[k] = (src, t);
            }
        }
    }
}

trait ClonePair {
    fn clone_pair(&self) -> (String, &Node);
}
impl ClonePair for (String, Node) {
    fn clone_pair(&self) -> (String, &Node) {
        (self.0.clone(), &self.1)
    }
}

pub fn selfcheck() -> Result<String, String> {
    // the projection table on one value of each type
    let v = Value::Int(3);
    if format!("{:?}", proj_number(&Ok(v.clone()))) != "Ok(3.0)" || proj_string(&Ok(v.clone())).is_ok() || proj_int(&Ok(v)) != Ok(3) {
        return Err("projection table broken".into());
    }
    Ok("projection table: 7 typed views + error pass-through".into())
}

/// pairs of different sources of equal length whose names collide under a 32-bit digest (the truncated std hash with
/// its fixed default keys, FNV-1a, djb2, sdbm, the 31-polynomial): evaluated back to back through every entry point.
/// Whatever remembers a source by a digest of it would answer the second with the first.
struct CollidingSources {
    pairs: Vec<(String, String, &'static str)>,
}

fn digests(s: &str) -> [(u32, &'static str); 8] {
    use std::hash::{Hash, Hasher};
    let mut h1 = std::collections::hash_map::DefaultHasher::new();
    s.hash(&mut h1);
    let a = h1.finish();
    let mut h2 = std::collections::hash_map::DefaultHasher::new();
    h2.write(s.as_bytes());
    let b = h2.finish();
    let mut fnv32: u32 = 0x811c9dc5;
    let mut fnv64: u64 = 0xcbf29ce484222325;
    let mut djb2: u32 = 5381;
    let mut sdbm: u32 = 0;
    let mut java: u32 = 0;
    for &c in s.as_bytes() {
        fnv32 = (fnv32 ^ c as u32).wrapping_mul(0x01000193);
        fnv64 = (fnv64 ^ c as u64).wrapping_mul(0x100000001b3);
        djb2 = djb2.wrapping_mul(33).wrapping_add(c as u32);
        sdbm = (c as u32).wrapping_add(sdbm << 6).wrapping_add(sdbm << 16).wrapping_sub(sdbm);
        java = java.wrapping_mul(31).wrapping_add(c as u32);
    }
    [
        (a as u32, "low 32 bits of the std hash of the str"),
        ((a >> 32) as u32, "high 32 bits of the std hash of the str"),
        (b as u32, "low 32 bits of the std hash of the bytes"),
        (fnv32, "FNV-1a 32"),
        (fnv64 as u32, "low 32 bits of FNV-1a 64"),
        (djb2, "djb2"),
        (sdbm, "sdbm"),
        (java, "31-polynomial (Java hashCode)"),
    ]
}

fn colliding_pairs() -> Vec<(String, String, &'static str)> {
    use std::collections::HashMap;
    let mut tables: Vec<HashMap<u32, String>> = (0..8).map(|_| HashMap::new()).collect();
    let mut found: Vec<(String, String, &'static str)> = Vec::new();
    let mut per_kind = [0usize; 8];
    // 7-digit integer literals, then 7-character sums: equal length, different values
    let candidates = (1_000_000u32..1_450_000).map(|n| n.to_string()).chain((100u32..1000).flat_map(|a| (100u32..400).map(move |b| format!("{}+{}", a, b))));
    for s in candidates {
        for (k, (d, what)) in digests(&s).iter().enumerate() {
            if per_kind[k] >= 12 {
                continue;
            }
            match tables[k].get(d) {
                Some(other) if other.len() == s.len() && *other != s => {
                    found.push((other.clone(), s.clone(), what));
                    per_kind[k] += 1;
                },
                Some(_) => {},
                None => {
                    tables[k].insert(*d, s.clone());
                },
            }
        }
    }
    found
}

impl Phase for CollidingSources {
    fn name(&self) -> String {
        "equal-length sources that collide under 32-bit digests, back to back".into()
    }
    fn len(&self) -> u64 {
        self.pairs.len() as u64
    }
    fn exhaustive(&self) -> bool {
        true
    }
    fn run(&mut self, idx: u64, _r: &mut Rng, out: &mut Out) {
        let (s1, s2, what) = self.pairs[idx as usize].clone();
        let c0 = Ctx::new();
        for (k, src) in [&s1, &s2, &s1, &s2].iter().enumerate() {
            check_pair(out, src, &c0, format!("empty context; evaluation #{} of the pair {:?} / {:?}, which collide under {}", k + 1, s1, s2, what));
        }
        // and the plain facts: each source has its own value, whichever was evaluated before it
        for src in [&s1, &s2, &s1] {
            let want: i64 = src.split('+').map(|p| p.parse::<i64>().unwrap_or(0)).sum();
            for (name, got) in [
                ("eval", guard(|| evalexpr::eval(src)).map(|r| format!("{:?}", r))),
                ("eval_int", guard(|| evalexpr::eval_int(src)).map(|r| format!("{:?}", r))),
                ("eval_with_context", guard(|| evalexpr::eval_with_context(src, &c0)).map(|r| format!("{:?}", r))),
                ("eval_with_context_mut", guard(|| evalexpr::eval_with_context_mut(src, &mut c0.clone())).map(|r| format!("{:?}", r))),
                ("build_operator_tree + Node::eval", guard(|| build_operator_tree::<DefaultNumericTypes>(src).and_then(|t| t.eval())).map(|r| format!("{:?}", r))),
            ] {
                out.eval();
                let ok = matches!(&got, Ok(g) if g.contains(&format!("({})", want)) && g.starts_with("Ok"));
                if !ok {
                    out.violation(
                        &format!("entry-point/{}", name),
                        format!("{}   [evaluated right after {:?}; the two collide under {}]", src, if *src == s1 { &s2 } else { &s1 }, what),
                        format!("Ok(Int({}))", want),
                        format!("{:?}", got.map_err(|p| api::panic_text(&p))),
                    );
                }
            }
        }
        out.count("colliding pairs evaluated back to back");
    }
}

pub fn phases(cfg: &Cfg) -> Vec<Box<dyn Phase>> {
    vec![
        Box::new(Pairs {
            n: cfg.n(100_000, 2_000_000),
            recent: Vec::new(),
        }),
        Box::new(CollidingSources {
            pairs: colliding_pairs(),
        }),
    ]
}

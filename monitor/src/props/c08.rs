//! C08 — strict left-to-right evaluation; the first error wins.
//! The program corpus is shared with C11.

use super::c02::enumerate_asts_with;
use super::exec::{self, Entry};
use crate::api::{self, Built};
use crate::fw::{Cfg, Out, Phase};
use crate::observe::FnModel;
use crate::refmodel::eval::Model;
use crate::refmodel::lex::{render_spaced, ASSIGNOPS, BINOPS};
use crate::refmodel::parse::{render_ast, Ast, Parens};
use crate::refmodel::value::RV;
use crate::rng::Rng;

pub fn base_model() -> Model {
    let mut m = Model::new();
    for (n, f) in [
        ("t", FnModel::IntMap),
        ("b", FnModel::BoolMap),
        ("s", FnModel::StrMap),
        ("fl", FnModel::FloatMap),
        ("fail", FnModel::Fail),
        ("id", FnModel::Identity),
        ("f", FnModel::Identity),
        ("nest", FnModel::Nested),
        ("cnt", FnModel::NeedsTuple),
        ("nf", FnModel::FailNotFound("typeof")),
        ("deep", FnModel::Deep),
    ] {
        m.funs.insert(n.to_string(), f);
    }
    m
}

pub fn random_model(r: &mut Rng) -> Model {
    let mut m = base_model();
    let vals = [
        RV::Int(0),
        RV::Int(3),
        RV::Int(-2),
        RV::Float(1.5),
        RV::Float(-0.0),
        RV::Bool(true),
        RV::Bool(false),
        RV::Str("q".into()),
        RV::Tuple(vec![RV::Int(1), RV::Empty]),
        RV::Empty,
        RV::Tuple(vec![]),
        RV::Tuple(vec![RV::Float(2.5)]),
        RV::Float(f64::NAN),
        RV::Tuple(vec![RV::Float(f64::NAN), RV::Int(1)]),
    ];
    // now and then a user function shadows a builtin
    if r.chance(1, 5) {
        // … which may also fail: its error is the call's error, the builtin must not step in
        let f = if r.chance(1, 2) { FnModel::Marker } else { FnModel::Fail };
        m.funs.insert(r.pick(&["min", "max", "len", "typeof", "if", "str::from"]).to_string(), f);
    }
    for n in ["x", "y", "x0", "x1", "x2"] {
        if r.chance(2, 3) {
            m.vars.insert(n.to_string(), r.pick(&vals).clone());
        }
    }
    if r.chance(1, 10) {
        m.builtins_off = true;
    }
    m
}

fn call(name: &str, k: i64) -> Ast {
    Ast::Call(name.to_string(), Box::new(Ast::Const(RV::Int(k))))
}

/// a leaf with an observable effect (or an observable failure); `k` is unique per leaf
pub fn effect_leaf(kind: usize, k: i64) -> Ast {
    match kind % 12 {
        0 | 1 | 2 => call("t", k),
        3 | 4 => call("b", k),
        5 => call("s", k),
        6 => call("fl", k),
        7 => call("fail", k),
        8 => Ast::Read(format!("u{}", k)),
        9 => Ast::Assign("=", "x".into(), Box::new(call("t", k))),
        10 => Ast::Read("x".into()),
        _ => Ast::Assign("+=", "y".into(), Box::new(call("t", k))),
    }
}

pub fn assigns(a: &Ast, name: &str) -> bool {
    match a {
        Ast::Assign(_, t, r) => t == name || assigns(r, name),
        Ast::Call(_, x) | Ast::Un(_, x) | Ast::Group(x) => assigns(x, name),
        Ast::Bin(_, l, r) => assigns(l, name) || assigns(r, name),
        Ast::Tuple(v) | Ast::Chain(v) => v.iter().any(|x| assigns(x, name)),
        _ => false,
    }
}

/// an `x op= e` whose `e` itself assigns `x`: two documented readings differ, not generated
pub fn self_referential_opassign(a: &Ast) -> bool {
    match a {
        Ast::Assign(op, t, r) => (*op != "=" && assigns(r, t)) || self_referential_opassign(r),
        Ast::Call(_, x) | Ast::Un(_, x) | Ast::Group(x) => self_referential_opassign(x),
        Ast::Bin(_, l, r) => self_referential_opassign(l) || self_referential_opassign(r),
        Ast::Tuple(v) | Ast::Chain(v) => v.iter().any(self_referential_opassign),
        _ => false,
    }
}

pub fn corpus_exhaustive() -> Vec<Ast> {
    let mut v: Vec<Ast> = enumerate_asts_with(3, &mut |idx, pos| effect_leaf(idx * 5 + pos * 7, (pos + 1) as i64))
        .into_iter()
        .filter(|a| !self_referential_opassign(a))
        .collect();
    // every binary operator on two identical effectful operands
    for op in BINOPS {
        for kind in [0usize, 3, 5, 6, 7, 8] {
            let e = Ast::Bin("+", Box::new(effect_leaf(kind, 1)), Box::new(Ast::Const(RV::Int(1))));
            v.push(Ast::Bin(op, Box::new(e.clone()), Box::new(e.clone())));
            v.push(Ast::Bin(op, Box::new(effect_leaf(kind, 1)), Box::new(effect_leaf(kind, 1))));
        }
    }
    v
}

pub struct ProgGen<'a> {
    pub r: &'a mut Rng,
    pub k: i64,
    pub fail_budget: usize,
}

impl<'a> ProgGen<'a> {
    fn leaf(&mut self) -> Ast {
        self.k += 1;
        let k = self.k;
        if self.r.chance(1, 30) {
            // a variable read of a name that is only bound as a function; a re-entrant function; a function that
            // rejects non-tuples with the library's own error
            let k = self.k;
            return match self.r.below(11) {
                // `if` is a function like any other: all three arguments are evaluated, in order, before it is applied
                8 => Ast::Call("if".into(), Box::new(Ast::Tuple(vec![call("b", k), call("t", k), Ast::Group(Box::new(Ast::Chain(vec![if k % 2 == 0 { call("fail", k) } else { Ast::Read(format!("u{}", k)) }, call("t", k + 1000)])))]))),
                9 => Ast::Call("if".into(), Box::new(Ast::Tuple(vec![Ast::Const(RV::Bool(k % 2 == 0)), Ast::Assign("=", "x".into(), Box::new(call("t", k))), Ast::Assign("=", "y".into(), Box::new(call("t", k + 1)))]))),
                // a builtin of fixed arity called with another number of arguments fails when it is called, after its
                // arguments (and everything before the call) have been evaluated
                10 => {
                    let name = *self.r.pick(&["math::pow", "math::atan2", "bitand", "shl", "if", "math::log", "str::substring", "math::hypot"]);
                    let n = *self.r.pick(&[1usize, 3, 4]);
                    let args: Vec<Ast> = (0..n).map(|j| call("t", k + j as i64)).collect();
                    Ast::Call(name.into(), Box::new(if n == 1 { args.into_iter().next().unwrap() } else { Ast::Tuple(args) }))
                },
                // dozens of nested evaluations on this thread (more than 64), or none
                7 => call("deep", if k % 3 == 0 { 2 } else { 66 + k % 12 }),
                // text with line endings of every kind inside a literal is that text, for every entry point
                5 => Ast::Const(RV::Str("l1\r\nl2\rl3\n".into())),
                6 => Ast::Call("len".into(), Box::new(Ast::Const(RV::Str("a\r\nb".into())))),
                4 => call("nf", k),
                0 => Ast::Read((*self.r.pick(&["t", "id", "b", "fail"])).to_string()),
                1 => call("nest", k),
                2 => call("cnt", k),
                _ => Ast::Call("cnt".into(), Box::new(Ast::Tuple(vec![call("t", k), Ast::Const(RV::Int(1))]))),
            };
        }
        let kind = match self.r.below(24) {
            0..=7 => 0,   // t
            8..=10 => 3,  // b
            11 | 12 => 5, // s
            13 | 14 => 6, // fl
            15 => {
                if self.fail_budget > 0 {
                    self.fail_budget -= 1;
                    7
                } else {
                    0
                }
            },
            16 => {
                if self.fail_budget > 0 {
                    self.fail_budget -= 1;
                    8
                } else {
                    10
                }
            },
            17 | 18 => 9,
            19 | 20 => 10,
            21 => 11,
            _ => return Ast::Const(self.r.pick(&crate::gen::literal_pool()).clone()),
        };
        effect_leaf(kind, k)
    }

    pub fn expr(&mut self, depth: usize, allow_assign: bool) -> Ast {
        if depth == 0 || self.r.chance(1, 5) {
            let l = self.leaf();
            if !allow_assign {
                if let Ast::Assign(..) = l {
                    return call("t", self.k);
                }
            }
            return l;
        }
        let d = depth - 1;
        match self.r.below(23) {
            22 => {
                // both operands are the same expression: it is still evaluated twice
                let op = *self.r.pick(&BINOPS);
                let a = self.expr(d, false);
                Ast::Bin(op, Box::new(a.clone()), Box::new(a))
            },
            0..=8 => {
                let op = *self.r.pick(&BINOPS);
                let a = self.expr(d, allow_assign);
                let b = self.expr(d, allow_assign);
                Ast::Bin(op, Box::new(a), Box::new(b))
            },
            9 | 10 => {
                let op = if self.r.chance(1, 2) { "neg" } else { "!" };
                Ast::Un(op, Box::new(self.expr(d, allow_assign)))
            },
            11 | 12 | 13 => {
                // calls with a tuple argument: user function, exact builtins, an unknown function
                let f = *self.r.pick(&["id", "if", "typeof", "len", "max", "nosuch", "str::from", "id", "if"]);
                let n = self.r.range(1, 3);
                let arg = if n == 1 {
                    self.expr(d, allow_assign)
                } else {
                    Ast::Tuple((0..n).map(|_| self.expr(d, allow_assign)).collect())
                };
                Ast::Call(f.to_string(), Box::new(arg))
            },
            14 | 15 => {
                let n = self.r.range(2, 4);
                Ast::Tuple((0..n).map(|_| self.expr(d, allow_assign)).collect())
            },
            16 | 17 | 18 => {
                let n = self.r.range(2, 4);
                Ast::Chain((0..n).map(|_| self.expr(d, allow_assign)).collect())
            },
            19 if allow_assign => {
                let t = *self.r.pick(&["x", "y", "x0", "x1"]);
                Ast::Assign("=", t.to_string(), Box::new(self.expr(d, allow_assign)))
            },
            20 if allow_assign => {
                let t = *self.r.pick(&["x", "y", "x0", "x1"]);
                let op = *self.r.pick(&ASSIGNOPS[1..]);
                // the right-hand side of an op-assignment contains no assignment (self-reference is unclaimed)
                Ast::Assign(op, t.to_string(), Box::new(self.expr(d, false)))
            },
            _ => {
                let op = *self.r.pick(&BINOPS);
                let a = self.expr(d, allow_assign);
                let b = self.expr(d, allow_assign);
                Ast::Bin(op, Box::new(a), Box::new(b))
            },
        }
    }
}

#[derive(Clone, Copy, PartialEq)]
pub enum T {
    Int,
    Float,
    Bool,
    Str,
    Tuple,
    Empty,
    Any,
}

/// Type-directed generator: most programs are well-typed and run to completion through many effects; a wrong-typed
/// operand, a failing call or an unknown variable is planted now and then (`slips` of them at most).
pub struct TypedGen<'a> {
    pub r: &'a mut Rng,
    pub k: i64,
    pub slips: usize,
}

impl<'a> TypedGen<'a> {
    fn k(&mut self) -> i64 {
        self.k += 1;
        self.k
    }
    fn c(&mut self, name: &str) -> Ast {
        let k = self.k();
        call(name, k)
    }
    fn bin(&mut self, op: &'static str, a: Ast, b: Ast) -> Ast {
        Ast::Bin(op, Box::new(a), Box::new(b))
    }
    fn callt(&mut self, f: &str, args: Vec<Ast>) -> Ast {
        let arg = if args.len() == 1 { args.into_iter().next().unwrap() } else { Ast::Tuple(args) };
        Ast::Call(f.to_string(), Box::new(arg))
    }
    pub fn gen(&mut self, want: T, depth: usize) -> Ast {
        // a planted slip: another type, a failing call, an unknown variable
        if self.slips > 0 && self.r.chance(1, 14) {
            self.slips -= 1;
            return match self.r.below(4) {
                0 => self.c("fail"),
                1 => {
                    let k = self.k();
                    Ast::Read(format!("u{}", k))
                },
                _ => {
                    let other = *self.r.pick(&[T::Int, T::Float, T::Bool, T::Str, T::Tuple, T::Empty]);
                    self.gen(other, depth.min(1))
                },
            };
        }
        let want = if want == T::Any { *self.r.pick(&[T::Int, T::Int, T::Float, T::Bool, T::Str, T::Tuple, T::Empty]) } else { want };
        let leaf = depth == 0 || self.r.chance(1, 6);
        let d = depth.saturating_sub(1);
        match want {
            T::Int => {
                if leaf {
                    return match self.r.below(5) {
                        0 | 1 => self.c("t"),
                        2 => Ast::Const(RV::Int(self.r.below(20) as i64)),
                        3 => Ast::Read("x".into()),
                        _ => Ast::Read("y".into()),
                    };
                }
                match self.r.below(9) {
                    0..=3 => {
                        let op = *self.r.pick(&["+", "-", "*", "+", "-", "/", "%"]);
                        let (a, b) = (self.gen(T::Int, d), self.gen(T::Int, d));
                        self.bin(op, a, b)
                    },
                    4 => Ast::Un("neg", Box::new(self.gen(T::Int, d))),
                    5 => {
                        let (c, a, b) = (self.gen(T::Bool, d), self.gen(T::Int, d), self.gen(T::Int, d));
                        self.callt("if", vec![c, a, b])
                    },
                    6 => {
                        let f = *self.r.pick(&["max", "min"]);
                        let (a, b) = (self.gen(T::Int, d), self.gen(T::Int, d));
                        self.callt(f, vec![a, b])
                    },
                    7 => {
                        let s = self.gen(T::Str, d);
                        self.callt("len", vec![s])
                    },
                    _ => {
                        let (a, b) = (self.gen(T::Any, d), self.gen(T::Int, d));
                        Ast::Chain(vec![a, b])
                    },
                }
            },
            T::Float => {
                if leaf {
                    return match self.r.below(3) {
                        0 => self.c("fl"),
                        1 => Ast::Const(RV::Float(self.r.below(9) as f64 / 2.0)),
                        _ => Ast::Read("xf".into()),
                    };
                }
                match self.r.below(5) {
                    0 | 1 => {
                        let op = *self.r.pick(&["+", "-", "*", "/", "^"]);
                        let tb = if self.r.chance(1, 2) { T::Int } else { T::Float };
                        let (a, b) = (self.gen(T::Float, d), self.gen(tb, d));
                        self.bin(op, a, b)
                    },
                    2 => {
                        let (a, b) = (self.gen(T::Int, d), self.gen(T::Int, d));
                        self.bin("^", a, b)
                    },
                    3 => {
                        let f = *self.r.pick(&["floor", "ceil", "round", "math::sqrt", "math::abs"]);
                        let a = self.gen(T::Float, d);
                        self.callt(f, vec![a])
                    },
                    _ => Ast::Un("neg", Box::new(self.gen(T::Float, d))),
                }
            },
            T::Bool => {
                if leaf {
                    return match self.r.below(3) {
                        0 => self.c("b"),
                        1 => Ast::Const(RV::Bool(self.r.chance(1, 2))),
                        _ => Ast::Read("xb".into()),
                    };
                }
                match self.r.below(6) {
                    0 | 1 => {
                        let op = *self.r.pick(&["<", ">", "<=", ">=", "==", "!="]);
                        let t = if self.r.chance(2, 3) { T::Int } else { T::Str };
                        let (a, b) = (self.gen(t, d), self.gen(t, d));
                        self.bin(op, a, b)
                    },
                    2 | 3 => {
                        let op = *self.r.pick(&["&&", "||"]);
                        let (a, b) = (self.gen(T::Bool, d), self.gen(T::Bool, d));
                        self.bin(op, a, b)
                    },
                    4 => Ast::Un("!", Box::new(self.gen(T::Bool, d))),
                    5 if self.r.chance(1, 2) => {
                        // a variable compared with itself (NaN != NaN also when both sides are the same storage)
                        let v = (*self.r.pick(&["xn", "xt", "xf", "x", "xe", "xs"])).to_string();
                        let op = *self.r.pick(&["==", "!=", "<=", ">="]);
                        Ast::Bin(op, Box::new(Ast::Read(v.clone())), Box::new(Ast::Read(v)))
                    },
                    _ => {
                        let (a, b) = (self.gen(T::Any, d), self.gen(T::Any, d));
                        let op = if self.r.chance(1, 2) { "==" } else { "!=" };
                        self.bin(op, a, b)
                    },
                }
            },
            T::Str => {
                if leaf {
                    return match self.r.below(3) {
                        0 => self.c("s"),
                        1 => Ast::Const(RV::Str(self.r.pick(&["", "a", "bc", "x y"]).to_string())),
                        _ => Ast::Read("xs".into()),
                    };
                }
                match self.r.below(4) {
                    0 | 1 => {
                        let (a, b) = (self.gen(T::Str, d), self.gen(T::Str, d));
                        self.bin("+", a, b)
                    },
                    2 => {
                        let a = self.gen(T::Any, d);
                        self.callt("typeof", vec![a])
                    },
                    _ => {
                        let f = *self.r.pick(&["str::to_uppercase", "str::to_lowercase", "str::trim", "id"]);
                        let a = self.gen(T::Str, d);
                        self.callt(f, vec![a])
                    },
                }
            },
            T::Tuple => {
                let n = self.r.range(2, 4);
                Ast::Tuple((0..n).map(|_| self.gen(T::Any, d)).collect())
            },
            T::Empty | T::Any => {
                if leaf && self.r.chance(1, 3) {
                    return Ast::Empty;
                }
                // assignments keep the variable's type
                match self.r.below(5) {
                    0 => Ast::Assign("=", "x".into(), Box::new(self.gen(T::Int, d))),
                    1 => {
                        let op = *self.r.pick(&["+=", "-=", "*="]);
                        Ast::Assign(op, "y".into(), Box::new(self.gen_no_assign(T::Int, d)))
                    },
                    2 => Ast::Assign("=", "xs".into(), Box::new(self.gen(T::Str, d))),
                    3 => {
                        let op = *self.r.pick(&["&&=", "||="]);
                        Ast::Assign(op, "xb".into(), Box::new(self.gen_no_assign(T::Bool, d)))
                    },
                    4 if self.r.chance(1, 3) => {
                        // a compound assignment that fails leaves the variable as it was
                        let (t, op) = *self.r.pick(&[("xs", "+="), ("xs", "*="), ("xt", "+="), ("xe", "-="), ("xs", "&&=")]);
                        Ast::Assign(op, t.into(), Box::new(self.gen_no_assign(T::Int, d)))
                    },
                    _ => Ast::Assign("=", "fresh".into(), Box::new(self.gen(T::Any, d))),
                }
            },
        }
    }
    /// the right-hand side of an op-assignment contains no assignment
    fn gen_no_assign(&mut self, want: T, depth: usize) -> Ast {
        for _ in 0..8 {
            let a = self.gen(want, depth);
            if !a.has_assign() {
                return a;
            }
        }
        match want {
            T::Bool => self.c("b"),
            _ => self.c("t"),
        }
    }
}

pub fn typed_model() -> Model {
    let mut m = base_model();
    m.vars.insert("x".into(), RV::Int(5));
    m.vars.insert("y".into(), RV::Int(-2));
    m.vars.insert("xf".into(), RV::Float(1.5));
    m.vars.insert("xb".into(), RV::Bool(true));
    m.vars.insert("xs".into(), RV::Str("q".into()));
    m.vars.insert("xn".into(), RV::Float(f64::NAN));
    m.vars.insert("xt".into(), RV::Tuple(vec![RV::Float(f64::NAN), RV::Int(1)]));
    m.vars.insert("xe".into(), RV::Tuple(vec![]));
    m
}

pub fn typed_program(r: &mut Rng, max_depth: usize) -> Ast {
    let depth = r.range(2, max_depth);
    let slips = if r.chance(1, 2) { 0 } else { r.below(3) };
    let mut g = TypedGen { r, k: 0, slips };
    // a chain of statements ending in a value
    let n = g.r.range(1, 5);
    let mut stmts: Vec<Ast> = (0..n).map(|_| g.gen(T::Any, depth)).collect();
    if stmts.len() == 1 {
        stmts.pop().unwrap()
    } else {
        Ast::Chain(stmts)
    }
}

pub fn random_program(r: &mut Rng, max_depth: usize) -> Ast {
    let depth = r.range(1, max_depth);
    let fail_budget = r.below(4);
    let mut g = ProgGen {
        r,
        k: 0,
        fail_budget,
    };
    g.expr(depth, true)
}

/// runs one program through a string and a precompiled mutable entry point and compares the C08 triple and the
/// H2 schedule with the reference
pub fn check_program(out: &mut Out, ast: &Ast, model: &Model, r: &mut Rng) {
    let toks = render_ast(ast, Parens::Minimal, Some(r), true);
    let src = render_spaced(&toks);
    out.begin(|| format!("{}  with {}", src, model.show_vars()));
    let rr = exec::run_ref(ast, model, true);
    let tree = match api::build(&src) {
        Built::Tree(t) => t,
        Built::Err(_, d) => {
            // a program the reference claims (it is well-formed by construction) that does not precompile can have no
            // effects at all, which is not what the reference run shows unless that run has none either
            if !matches!(rr.result, Err(crate::refmodel::eval::RErr::Unclaimed(_))) && !rr.run.log.is_empty() {
                out.violation(
                    "order/well-formed-program-rejected-before-its-effects",
                    format!("{}   [initial context {}]", src, model.show_vars()),
                    format!("{} after the effects {}", exec::show_ref_result(&rr.result), exec::show_effects(&rr.run.log)),
                    format!("build_operator_tree: Err({})", d),
                );
            } else {
                out.count("program does not precompile (left to C02/C05)");
            }
            return;
        },
        Built::Panic(p) => {
            out.violation("panic", src.clone(), "Ok or Err".into(), p);
            return;
        },
    };
    let it = exec::run_impl(&src, Some(&tree), model, Entry::TreeMut, true);
    out.eval();
    let judged = exec::compare(out, "order", &src, model, &rr, &it, Entry::TreeMut);
    if judged {
        out.nontrivial(&format!("{}|{}", src, model.show_vars()));
        let stopped_early = rr.result.is_err();
        out.count(if stopped_early { "programs stopping at a failure" } else { "programs running to completion" });
        out.count_n("effect events compared", rr.run.log.len() as u64);
        exec::check_schedule(out, "order", &src, &tree, &it.trace, matches!(it.got, api::Got::Val(_)), true, Some(rr.run.applied));
        out.sample(|| format!("`{}` from {} => {} ; effects {} ; final {}", src, model.show_vars(), it.got.show(), exec::show_effects(&it.effects), api::show_vars(&it.vars_after)));
    }
    let is = exec::run_impl(&src, None, model, Entry::StrMut, false);
    out.eval();
    exec::compare(out, "order", &src, model, &rr, &is, Entry::StrMut);
    // the library's own context type without the recording wrapper around it (a wrapper inherits the provided
    // methods of the context traits, the HashMapContext may override them): same result, same final context
    if judged {
        let log = crate::observe::new_log();
        let mut plain = api::ctx_from_model(model, &log);
        let got = api::eval_tree_mut(&tree, &mut plain);
        out.eval();
        out.count("runs on the bare HashMapContext");
        let vars = api::ctx_vars(&plain);
        let ok = match got.lifted() {
            None => false,
            Some(l) => crate::refmodel::eval::outcome_matches(&rr.result, &l),
        };
        if !ok || !api::same_vars(&rr.after.vars, &vars) {
            out.violation(
                "order/bare-context",
                format!("{}   [HashMapContext without the recording wrapper; initial context {}]", src, model.show_vars()),
                format!("{} ; final {}", exec::show_ref_result(&rr.result), rr.after.show_vars()),
                format!("{} ; final {}", got.show(), api::show_vars(&vars)),
            );
        }
    }
    // the read-only path evaluates in the same order, exactly once (effects of user functions are visible there too)
    {
        let rr_imm = exec::run_ref(ast, model, false);
        let ii = exec::run_impl(&src, Some(&tree), model, Entry::TreeImm, true);
        out.eval();
        if exec::compare(out, "order/read-only", &src, model, &rr_imm, &ii, Entry::TreeImm) {
            exec::check_schedule(out, "order/read-only", &src, &tree, &ii.trace, matches!(ii.got, api::Got::Val(_)), false, Some(rr_imm.run.applied));
        }
    }
    // second use of the same precompiled tree: after an evaluation against a different context (builtins
    // toggled, a builtin shadowed, other variable types) it must still behave like a fresh tree
    if judged && r.chance(1, 4) {
        let mut other = model.clone();
        other.builtins_off = !model.builtins_off;
        other.funs.insert("max".into(), FnModel::Marker);
        other.funs.insert("if".into(), FnModel::Marker);
        other.funs.remove("t");
        other.vars.insert("x".into(), RV::Str("other".into()));
        let _ = exec::run_impl(&src, Some(&tree), &other, Entry::TreeMut, false);
        let again = exec::run_impl(&src, Some(&tree), model, Entry::TreeMut, false);
        out.evals(2);
        out.count("reused precompiled trees");
        exec::compare(out, "order/reused-tree", &src, model, &rr, &again, Entry::TreeMut);
    }
    // … and the other way round: the tree has been evaluated where its builtin names meant the builtins; now every one
    // of them is a user function of the context, which takes precedence from this evaluation on
    if judged && r.chance(1, 4) {
        let mut shadowed = model.clone();
        shadowed.builtins_off = false;
        for n in ["len", "max", "min", "typeof", "if", "str::from", "math::abs", "floor", "contains"] {
            shadowed.funs.insert(n.into(), FnModel::Marker);
        }
        let rs = exec::run_ref(ast, &shadowed, true);
        let is2 = exec::run_impl(&src, Some(&tree), &shadowed, Entry::TreeMut, false);
        out.eval();
        out.count("evaluated trees meeting a context that shadows the builtins");
        exec::compare(out, "order/reused-tree-shadowed-later", &src, &shadowed, &rs, &is2, Entry::TreeMut);
    }
    // a tree that received this program through `clone_from` (over a longer, a shorter and a differently shaped
    // tree) is this program: equal, and evaluated with the same effects
    if judged && r.chance(1, 6) {
        let donor_src = *r.pick(&["t(901); t(902); t(903); t(904); (t(905), t(906), t(907), t(908)); x = 9; y = 8", "x", "(t(911), t(912), t(913), t(914), t(915), t(916))", "fail(920) + t(921) * (t(922) - t(923))"]);
        if let Built::Tree(mut t2) = api::build(donor_src) {
            t2.clone_from(&tree);
            out.count("trees overwritten through clone_from");
            if t2 != tree {
                out.violation("order/clone_from", format!("`{}`.clone_from(`{}`)", donor_src, src), format!("{:?}", tree), format!("{:?}", t2));
            } else {
                let ic = exec::run_impl(&src, Some(&t2), model, Entry::TreeMut, false);
                out.eval();
                exec::compare(out, "order/clone_from", &src, model, &rr, &ic, Entry::TreeMut);
            }
        }
    }
    // an operator that lacks its right operand is applied (and fails) only after the operand it has was evaluated: the
    // program in parentheses runs with all its effects, then the incomplete application fails — or the program's own
    // failure is reported
    if judged && !matches!(rr.result, Err(crate::refmodel::eval::RErr::Unclaimed(_))) && r.chance(1, 3) {
        let op = *r.pick(&BINOPS);
        let src2 = format!("( {} ) {}", src, op);
        if let Built::Tree(t2) = api::build(&src2) {
            let entry = if r.chance(1, 2) { Entry::TreeMut } else { Entry::StrMut };
            let i2 = exec::run_impl(&src2, Some(&t2), model, entry, false);
            out.eval();
            out.count("incomplete operator applications after a program with effects");
            let same_log = rr.run.log.len() == i2.effects.len() && rr.run.log.iter().zip(&i2.effects).all(|(a, b)| a.same(b));
            let result_ok = match (&rr.result, i2.got.lifted()) {
                (_, None) => false,
                (Ok(_), Some(Err(crate::refmodel::errs::ErrClass::Arity))) => true,
                (Ok(_), Some(_)) => false,
                (Err(_), Some(l)) => crate::refmodel::eval::outcome_matches(&rr.result, &l),
            };
            if !same_log || !result_ok || !api::same_vars(&rr.after.vars, &i2.vars_after) {
                out.violation(
                    "order/incomplete-operator-application",
                    format!("{}   [initial context {}]", src2, model.show_vars()),
                    format!("{} ; effects {} ; final {}", if rr.result.is_ok() { "Err(wrong operator argument amount)".to_string() } else { exec::show_ref_result(&rr.result) }, exec::show_effects(&rr.run.log), rr.after.show_vars()),
                    format!("{} ; effects {} ; final {}", i2.got.show(), exec::show_effects(&i2.effects), api::show_vars(&i2.vars_after)),
                );
            }
        } else {
            out.count("incomplete operator applications rejected at precompilation (not judged)");
        }
    }
    // the typed views evaluate exactly once as well: same effects, same final context
    if judged {
        let which = r.below(14);
        let (effects, vars) = exec::run_typed(&src, &tree, model, which);
        out.eval();
        out.count("typed entry points (effects compared)");
        let same_log = rr.run.log.len() == effects.len() && rr.run.log.iter().zip(&effects).all(|(a, b)| a.same(b));
        if !same_log || !api::same_vars(&rr.after.vars, &vars) {
            out.violation(
                "order/typed-entry-point-effects",
                format!("{}   [typed mutable entry point #{} ({}); initial context {}]", src, which, exec::TYPED_NAMES[which], model.show_vars()),
                format!("{} ; final {}", exec::show_effects(&rr.run.log), rr.after.show_vars()),
                format!("{} ; final {}", exec::show_effects(&effects), api::show_vars(&vars)),
            );
        }
    }
}

struct Exhaustive {
    corpus: Vec<Ast>,
}

impl Phase for Exhaustive {
    fn name(&self) -> String {
        "all-programs<=3-operators with effect leaves".into()
    }
    fn len(&self) -> u64 {
        self.corpus.len() as u64
    }
    fn exhaustive(&self) -> bool {
        true
    }
    fn run(&mut self, idx: u64, r: &mut Rng, out: &mut Out) {
        let ast = self.corpus[idx as usize].clone();
        let mut m = base_model();
        // x: int (so that `x op= t(k)` can succeed), y: absent for even, float for odd programs
        m.vars.insert("x".into(), RV::Int(5));
        if idx % 2 == 1 {
            m.vars.insert("y".into(), RV::Float(0.5));
        }
        check_program(out, &ast, &m, r);
    }
}

struct Random {
    n: u64,
}

impl Phase for Random {
    fn name(&self) -> String {
        "random-programs depth<=10 with planted failures".into()
    }
    fn len(&self) -> u64 {
        self.n
    }
    fn run(&mut self, _idx: u64, r: &mut Rng, out: &mut Out) {
        if r.chance(1, 2) {
            // type-directed: long programs that mostly run to completion
            let ast = typed_program(r, 8);
            check_program(out, &ast, &typed_model(), r);
            out.count("type-directed programs");
        } else {
            let ast = random_program(r, 10);
            let m = random_model(r);
            check_program(out, &ast, &m, r);
        }
    }
}

/// one precompiled tree evaluated dozens of times on the same mutable context (state kept in the tree or the context
/// across evaluations must not change what a fresh evaluation would do), and long programs of 50-300 statements
struct LongLived {
    n: u64,
}

impl Phase for LongLived {
    fn name(&self) -> String {
        "long-lived trees (20-80 evaluations on one context) and long programs (50-300 statements)".into()
    }
    fn len(&self) -> u64 {
        self.n
    }
    fn run(&mut self, idx: u64, r: &mut Rng, out: &mut Out) {
        if idx % 25 == 7 {
            // a script of hundreds or thousands of statements with effects whose LAST statement does not parse: nothing is
            // evaluated, so nothing happens (no call, no assignment), whichever entry point gets the text
            let n = *r.pick(&[10usize, 100, 600, 1000, 1400, 3000]);
            let mut src = String::new();
            for k in 0..n {
                src.push_str(&format!("x{} = t({}); ", k % 7, k));
            }
            src.push_str(*r.pick(&["(", "1 +* 2)", "\"unterminated", "f(1", ") 1", "1 2"]));
            out.begin(|| format!("{} statements with effects, then a statement that does not parse", n));
            let model = base_model();
            for entry in [Entry::StrMut, Entry::StrImm] {
                let i = exec::run_impl(&src, None, &model, entry, false);
                out.eval();
                let parse_error = matches!(&i.got, api::Got::Err(crate::refmodel::errs::ErrClass::Parse(_), _) | api::Got::Err(crate::refmodel::errs::ErrClass::Arity, _));
                if !i.effects.is_empty() || !api::same_vars(&i.vars_after, &model.vars) || matches!(i.got, api::Got::Val(_)) {
                    out.violation(
                        "order/effects-of-a-script-that-does-not-parse",
                        format!("{} statements `x<k> = t(<k>);` followed by `{}`  [entry {:?}]", n, &src[src.len().saturating_sub(14)..], entry),
                        "an error, no effect, context unchanged".into(),
                        format!("{} ; {} effect events ; final {}", i.got.show(), i.effects.len(), api::show_vars(&i.vars_after)),
                    );
                }
                if !parse_error {
                    out.count("long scripts rejected with a non-syntax error class");
                }
            }
            out.nontrivial(&format!("longscript {} {}", n, idx));
            out.count("long scripts that do not parse");
            return;
        }
        if idx % 5 == 4 {
            // deep program: 130-600 levels of right-nested operators / parentheses / calls, effects at every level
            // (kept within the documented 4096-character input bound)
            let depth = r.range(130, 330);
            let mut k = 0i64;
            let mut a = call("t", 0);
            let kind = r.below(3);
            for _ in 0..depth {
                k += 1;
                a = match kind {
                    0 => Ast::Bin("+", Box::new(call("t", k)), Box::new(a)),
                    1 => Ast::Call("id".into(), Box::new(a)),
                    _ => Ast::Tuple(vec![call("t", k), a]),
                };
            }
            out.count("deep programs");
            check_program(out, &a, &base_model(), r);
            return;
        }
        if idx % 5 == 3 {
            // sequences and argument lists of every size 2..=70 (inline buffers have sizes)
            let n = if r.chance(1, 6) { (*r.pick(&crate::gen::BOUNDARY_SIZES[20..31])).max(2) } else { 2 + (idx / 5 % 69) as usize };
            let elems: Vec<Ast> = (1..=n as i64).map(|k| call(if k % 7 == 0 { "b" } else { "t" }, k)).collect();
            let a = match r.below(4) {
                0 => Ast::Tuple(elems),
                1 => Ast::Chain(elems),
                2 => Ast::Call("id".into(), Box::new(Ast::Tuple(elems))),
                _ => Ast::Call("max".into(), Box::new(Ast::Tuple(elems.into_iter().filter(|e| matches!(e, Ast::Call(f, _) if f == "t")).collect()))),
            };
            out.count("sequences of exact sizes 2..=70 and boundary sizes up to 513");
            check_program(out, &a, &base_model(), r);
            return;
        }
        if idx % 2 == 0 {
            // long program
            let n = r.range(50, 300);
            let mut g = TypedGen { r, k: 0, slips: if idx % 4 == 0 { 0 } else { 1 } };
            let stmts: Vec<Ast> = (0..n).map(|_| g.gen(T::Any, 2)).collect();
            let ast = Ast::Chain(stmts);
            out.count("long programs");
            check_program(out, &ast, &typed_model(), r);
            return;
        }
        let ast = typed_program(r, 4);
        let toks = render_ast(&ast, Parens::Minimal, Some(r), true);
        let src = render_spaced(&toks);
        out.begin(|| format!("long-lived tree `{}`", src));
        let tree = match api::build(&src) {
            Built::Tree(t) => t,
            _ => return,
        };
        let log = crate::observe::new_log();
        let mut model = typed_model();
        let ctx = api::ctx_from_model(&model, &log);
        let mut rc = crate::observe::RecordingContext::new(ctx, log.clone());
        let rounds = r.range(20, 80);
        out.count("long-lived trees");
        for round in 0..rounds {
            // the reference runs the same program on the model, step by step
            let mut m = model.clone();
            m.mutable = true;
            let mut run = crate::refmodel::eval::Run::default();
            let exp = crate::refmodel::eval::eval(&ast, &mut m, &mut run);
            if matches!(exp, Err(crate::refmodel::eval::RErr::Unclaimed(_))) {
                return;
            }
            let _ = crate::observe::take_log(&log);
            let got = api::eval_tree_mut(&tree, &mut rc);
            out.eval();
            let vars = api::ctx_vars(&rc);
            let ok = got.lifted().map_or(false, |l| crate::refmodel::eval::outcome_matches(&exp, &l)) && api::same_vars(&m.vars, &vars);
            if !ok {
                out.violation(
                    "order/long-lived-tree",
                    format!("evaluation #{} of the same precompiled `{}` on the same context (context before: {})", round + 1, src, model.show_vars()),
                    format!("{} ; context {}", exec::show_ref_result(&exp), m.show_vars()),
                    format!("{} ; context {}", got.show(), api::show_vars(&vars)),
                );
                return;
            }
            model = m;
            model.mutable = true;
            // programs like `xs = xs + xs` double a value per round: stop before it becomes a memory test
            let big = model.vars.values().any(|v| match v {
                RV::Str(s) => s.len() > 4096,
                RV::Tuple(t) => t.len() > 512,
                _ => false,
            });
            if big {
                break;
            }
        }
        out.nontrivial(&format!("long-lived {}", src));
        out.sample(|| format!("`{}` evaluated {} times on one context, every step as the reference says; final {}", src, rounds, model.show_vars()));
    }
}

pub fn selfcheck() -> Result<String, String> {
    // the README's script examples through the reference evaluator
    use crate::refmodel::lex::lex;
    use crate::refmodel::parse::{classify, Class};
    let progs: [(&str, RV); 6] = [
        ("a = 2; a *= 2; a += 2; a", RV::Int(6)),
        ("a = \"abc\"; a += \"def\"; a", RV::Str("abcdef".into())),
        ("a = true; a &&= false; a", RV::Bool(false)),
        ("1;2;3;4;", RV::Empty),
        ("1;2;3;4", RV::Int(4)),
        ("hp = 1; max_hp = 5; heal_amount = 3; hp = min(hp + heal_amount, max_hp); hp", RV::Int(4)),
    ];
    for (src, want) in progs {
        let l = lex(src).map_err(|e| format!("{:?}", e))?;
        let ast = match classify(&l.toks) {
            (Class::Well, Some(a)) => a,
            (c, _) => return Err(format!("reference parser rejects README program `{}`: {:?}", src, c)),
        };
        let rr = exec::run_ref(&ast, &Model::new(), true);
        match rr.result {
            Ok(v) if v.same(&want) => {},
            other => return Err(format!("reference evaluator: `{}` gives {}, README says {}", src, exec::show_ref_result(&other), want.show())),
        }
    }
    Ok("reference evaluator reproduces 6 README scripts".into())
}

pub fn phases(cfg: &Cfg) -> Vec<Box<dyn Phase>> {
    vec![
        Box::new(Exhaustive {
            corpus: corpus_exhaustive(),
        }),
        Box::new(Random {
            n: cfg.n(250_000, 5_000_000),
        }),
        Box::new(LongLived {
            n: cfg.n(2_000, 60_000),
        }),
    ]
}

//! C05 — tuples and chains compose: `,` aggregates, `;` sequences.

use super::c08::base_model;
use super::exec::{self, Entry};
use super::synt::{judge, Want};
use crate::api;
use crate::fw::{Cfg, Out, Phase};
use crate::gen::{self, AstGen};
use crate::observe;
use crate::refmodel::eval::Model;
use crate::refmodel::lex::{render_spaced, Tok};
use crate::refmodel::parse::{render_ast, Class, Parens};
use crate::refmodel::value::RV;
use crate::rng::Rng;

fn model() -> Model {
    let mut m = base_model();
    m.vars.insert("a".into(), RV::Int(7));
    m.vars.insert("x".into(), RV::Int(0));
    m.vars.insert("e0".into(), RV::Tuple(vec![]));
    m.vars.insert("e1".into(), RV::Tuple(vec![RV::Empty]));
    m.vars.insert("u".into(), RV::Empty);
    m.vars.insert("bt".into(), RV::Bool(true));
    m.vars.insert("bf".into(), RV::Bool(false));
    m
}

/// tree equality for well-formed sequences, then value / final context / effect order against the reference
fn judge_and_run(out: &mut Out, toks: &[Tok], src: &str, hook: bool) {
    out.begin(|| src.to_string());
    if hook {
        observe::start_parser_trace();
    }
    let v = judge(out, toks, src, Want::WellFormed, "sequence");
    if hook {
        let states = observe::stop_parser_trace();
        out.count_n("H1 parser-step events", states.len() as u64);
        for s in &states {
            out.seen("parser stack shapes (H1)", &observe::shape_signature(s));
        }
    }
    if v.class != Class::Well {
        return;
    }
    out.nontrivial(src);
    let (ast, tree) = match (&v.ast, &v.tree) {
        (Some(a), Some(t)) => (a, t),
        _ => return, // rejected although well-formed: already reported by judge
    };
    let m = model();
    let rr = exec::run_ref(ast, &m, true);
    let ir = exec::run_impl(src, Some(tree), &m, Entry::TreeMut, false);
    out.eval();
    // the tuple-typed views and the context-free form must run the same program
    {
        let which = if out.evaluations % 2 == 0 { 5 } else { 12 };
        let (effects, vars) = exec::run_typed(src, tree, &m, which);
        out.eval();
        let same_log = rr.run.log.len() == effects.len() && rr.run.log.iter().zip(&effects).all(|(a, b)| a.same(b));
        if !matches!(rr.result, Err(crate::refmodel::eval::RErr::Unclaimed(_))) && (!same_log || !api::same_vars(&rr.after.vars, &vars)) {
            out.violation(
                "sequence/typed-entry-point",
                format!("{}   [{}; initial context {}]", src, exec::TYPED_NAMES[which], m.show_vars()),
                format!("{} ; final {}", exec::show_effects(&rr.run.log), rr.after.show_vars()),
                format!("{} ; final {}", exec::show_effects(&effects), api::show_vars(&vars)),
            );
        }
        let free_ref = exec::run_ref(ast, &Model::new(), true);
        if !matches!(free_ref.result, Err(crate::refmodel::eval::RErr::Unclaimed(_))) {
            let got = api::lift(crate::observe::guard(|| evalexpr::eval(src)));
            out.eval();
            let ok = got.lifted().map_or(false, |l| crate::refmodel::eval::outcome_matches(&free_ref.result, &l));
            if !ok {
                out.violation("sequence/context-free", format!("eval({:?})", src), exec::show_ref_result(&free_ref.result), got.show());
            }
        }
    }
    // the same program through the read-only path (the property is about the language, not one entry point)
    let rr_imm = exec::run_ref(ast, &m, false);
    let ir_imm = exec::run_impl(src, Some(tree), &m, Entry::TreeImm, false);
    out.eval();
    exec::compare(out, "sequence/read-only", src, &m, &rr_imm, &ir_imm, Entry::TreeImm);
    if exec::compare(out, "sequence", src, &m, &rr, &ir, Entry::TreeMut) {
        out.count("sequences evaluated and compared");
        out.sample(|| format!("`{}` == {} => {} ; effects {}", src, ast.sx(), ir.got.show(), exec::show_effects(&ir.effects)));
    }
}

/// all strings over { , ; ( ) e } up to a length; `e` is instantiated round-robin with a literal, a variable,
/// an assignment and a recording call, so that element effects are visible
struct Skeletons {
    maxlen: u32,
}

impl Phase for Skeletons {
    fn name(&self) -> String {
        format!("separator-skeletons len<={}", self.maxlen)
    }
    fn len(&self) -> u64 {
        gen::seq_space(5, self.maxlen)
    }
    fn exhaustive(&self) -> bool {
        true
    }
    fn run(&mut self, idx: u64, _r: &mut Rng, out: &mut Out) {
        let seq = gen::decode_seq(idx, 5, self.maxlen);
        // cheap pre-filter: two adjacent `e`, `e (` or `) e`, `) (` are juxtapositions (ill-formed, C13's business)
        let mut toks: Vec<Tok> = Vec::new();
        let mut k = 0i64;
        for s in &seq {
            match s {
                0 => toks.push(Tok::Op(",")),
                1 => toks.push(Tok::Op(";")),
                2 => toks.push(Tok::Op("(")),
                3 => toks.push(Tok::Op(")")),
                _ => {
                    k += 1;
                    match (k + idx as i64) % 4 {
                        0 => toks.push(Tok::Int(k)),
                        1 => toks.push(Tok::Ident("a".into())),
                        2 => {
                            toks.push(Tok::Ident("x".into()));
                            toks.push(Tok::Op("="));
                            toks.push(Tok::Int(k));
                        },
                        _ => {
                            toks.push(Tok::Ident("t".into()));
                            toks.push(Tok::Op("("));
                            toks.push(Tok::Int(k));
                            toks.push(Tok::Op(")"));
                        },
                    }
                },
            }
        }
        let src = render_spaced(&toks);
        judge_and_run(out, &toks, &src, idx % 32 == 0);
    }
}

struct SeqSweep {
    alphabet: Vec<Tok>,
    maxlen: u32,
}

impl Phase for SeqSweep {
    fn name(&self) -> String {
        format!("token-sequences A16 with a separator, len<={}", self.maxlen)
    }
    fn len(&self) -> u64 {
        gen::seq_space(self.alphabet.len() as u64, self.maxlen)
    }
    fn exhaustive(&self) -> bool {
        true
    }
    fn run(&mut self, idx: u64, _r: &mut Rng, out: &mut Out) {
        let seq = gen::decode_seq(idx, self.alphabet.len() as u64, self.maxlen);
        if !seq.iter().any(|i| self.alphabet[*i].is_op(",") || self.alphabet[*i].is_op(";")) {
            return;
        }
        let toks: Vec<Tok> = seq.iter().map(|i| self.alphabet[*i].clone()).collect();
        let src = render_spaced(&toks);
        judge_and_run(out, &toks, &src, false);
    }
}

/// sequences nested inside open sequences, many levels deep (well inside the 4096-character bound)
struct DeepNest {
    n: u64,
}

impl Phase for DeepNest {
    fn name(&self) -> String {
        "deeply nested sequences (10-140 levels), also with a parenthesis too many / too few".into()
    }
    fn len(&self) -> u64 {
        self.n
    }
    fn run(&mut self, _idx: u64, r: &mut Rng, out: &mut Out) {
        use crate::refmodel::parse::Ast;
        if r.chance(1, 3) {
            // long flat sequences: hundreds of elements with effects
            let n = if r.chance(1, 2) { r.range(100, 700) } else { (*r.pick(&gen::BOUNDARY_SIZES[..31])).max(2) };
            let elems: Vec<Ast> = (1..=n as i64)
                .map(|k| match k % 5 {
                    0 => Ast::Assign("=", "x".into(), Box::new(Ast::Const(RV::Int(k)))),
                    1 => Ast::Call("t".into(), Box::new(Ast::Const(RV::Int(k)))),
                    2 => Ast::Empty,
                    3 => Ast::Bin("+", Box::new(Ast::Read("x".into())), Box::new(Ast::Const(RV::Int(k)))),
                    _ => Ast::Const(RV::Int(k)),
                })
                .collect();
            let a = match r.below(3) {
                0 => Ast::Tuple(elems),
                1 => Ast::Chain(elems),
                _ => Ast::Chain(elems.chunks(7).map(|c| if c.len() == 1 { c[0].clone() } else { Ast::Tuple(c.to_vec()) }).collect()),
            };
            let toks = render_ast(&a, Parens::Minimal, Some(r), false);
            let src = render_spaced(&toks);
            out.count("long flat sequences");
            judge_and_run(out, &toks, &src, false);
            return;
        }
        // (a third of them beyond 64 and 128 levels: whatever tracks the open groups has a width)
        let depth = if r.chance(1, 3) { r.range(60, 140) } else { r.range(10, 60) };
        let mut k = 0i64;
        let mut a = Ast::Const(RV::Int(0));
        for _ in 0..depth {
            k += 1;
            let before: Vec<Ast> = (0..r.below(3)).map(|j| if j == 0 { Ast::Assign("=", "x".into(), Box::new(Ast::Const(RV::Int(k)))) } else { Ast::Const(RV::Int(k)) }).collect();
            let mut elems = before;
            elems.push(a);
            if r.chance(1, 3) {
                elems.push(Ast::Call("t".into(), Box::new(Ast::Const(RV::Int(k)))));
            }
            a = if elems.len() == 1 {
                // a tuple or chain needs two slots: an empty one keeps the level a sequence
                if r.chance(1, 2) { Ast::Tuple(vec![elems.pop().unwrap(), Ast::Empty]) } else { Ast::Chain(vec![Ast::Empty, elems.pop().unwrap()]) }
            } else if r.chance(1, 2) {
                Ast::Tuple(elems)
            } else {
                Ast::Chain(elems)
            };
        }
        let toks = render_ast(&a, Parens::Minimal, Some(r), false);
        let src = render_spaced(&toks);
        out.count("deep nests");
        judge_and_run(out, &toks, &src, false);
        // the same nest with one parenthesis too many / one too few is unbalanced, at whatever depth
        let mut more = toks.clone();
        more.push(Tok::Op(")"));
        super::synt::judge(out, &more, &render_spaced(&more), super::synt::Want::IllFormed, "sequence");
        if let Some(p) = toks.iter().rposition(|t| t.is_op(")")) {
            let mut fewer = toks.clone();
            fewer.remove(p);
            super::synt::judge(out, &fewer, &render_spaced(&fewer), super::synt::Want::IllFormed, "sequence");
        }
    }
}

struct RandomSeq {
    n: u64,
}

impl Phase for RandomSeq {
    fn name(&self) -> String {
        "random-sequence-programs".into()
    }
    fn len(&self) -> u64 {
        self.n
    }
    fn run(&mut self, _idx: u64, r: &mut Rng, out: &mut Out) {
        // a chain of tuples of elements with effects, nested through parentheses, with empty elements
        fn element(r: &mut Rng, k: &mut i64, depth: usize) -> crate::refmodel::parse::Ast {
            use crate::refmodel::parse::Ast;
            *k += 1;
            match r.below(if depth == 0 { 7 } else { 10 }) {
                0 => Ast::Empty,
                1 if r.chance(1, 3) => {
                    // text elements that contain what separates elements, comments or literals elsewhere
                    let t = *r.pick(&["a//b", "http://example.org", "/*", "*/", "/* c */", "c:\\", "\\", "x;y", "1, 2", "(", ")", "\"q\"", "", "//", ";", ",", "a\\\"", "\\\\"]);
                    if r.chance(1, 2) {
                        Ast::Const(RV::Str(t.to_string()))
                    } else {
                        Ast::Assign("=", "s".into(), Box::new(Ast::Const(RV::Str(t.to_string()))))
                    }
                },
                1 => Ast::Const(RV::Int(*k)),
                2 => Ast::Read((*r.pick(&["a", "a", "e0", "e1", "_", "min", "math::pi", "len", "p", "p"])).to_string()),
                3 if r.chance(1, 6) => {
                    // a tuple variable takes tuples of any length
                    let n = *r.pick(&[2usize, 3, 4, 6, 1]);
                    let elems: Vec<Ast> = (0..n.max(2)).map(|j| Ast::Const(RV::Int(*k * 10 + j as i64))).collect();
                    Ast::Assign("=", "p".into(), Box::new(Ast::Group(Box::new(Ast::Tuple(elems)))))
                },
                3 if r.chance(1, 4) => {
                    // variables named like a discard pattern, a builtin function, a well-known constant: names like any other
                    let t = *r.pick(&["_", "min", "math::pi", "len", "if"]);
                    Ast::Assign("=", t.into(), Box::new(Ast::Const(RV::Int(*k))))
                },
                // a variable that holds the empty value has a type like any other (the assignment fails, the chain stops)
                3 | 4 if r.chance(1, 25) => Ast::Assign("=", "u".into(), Box::new(Ast::Const(RV::Int(*k)))),
                3 | 4 => Ast::Assign("=", "x".into(), Box::new(Ast::Const(RV::Int(*k)))),
                5 => Ast::Call("t".into(), Box::new(Ast::Const(RV::Int(*k)))),
                6 => {
                    if *k % 3 == 0 {
                        // overwriting 0.0 with -0.0 (and back) is an overwrite like any other
                        let z = Ast::Const(RV::Float(0.0));
                        Ast::Assign("=", "z".into(), Box::new(if *k % 2 == 0 { z } else { Ast::Un("neg", Box::new(z)) }))
                    } else {
                        Ast::Assign("+=", "x".into(), Box::new(Ast::Call("t".into(), Box::new(Ast::Const(RV::Int(*k))))))
                    }
                },
                7 => Ast::Bin("+", Box::new(Ast::Read("x".into())), Box::new(Ast::Const(RV::Int(*k)))),
                // a nested sequence as right-hand side of a boolean op-assignment whose target already holds the deciding
                // value: the sequence is evaluated all the same
                _ if r.chance(1, 4) => {
                    let (op, t) = *r.pick(&[("||=", "bt"), ("&&=", "bf"), ("||=", "bf"), ("&&=", "bt")]);
                    Ast::Assign(op, t.into(), Box::new(Ast::Group(Box::new(sequence(r, k, depth - 1)))))
                },
                _ => sequence(r, k, depth - 1),
            }
        }
        fn sequence(r: &mut Rng, k: &mut i64, depth: usize) -> crate::refmodel::parse::Ast {
            use crate::refmodel::parse::Ast;
            let tuple = |r: &mut Rng, k: &mut i64| -> Ast {
                let n = r.range(1, 4);
                if n == 1 {
                    element(r, k, depth)
                } else {
                    Ast::Tuple((0..n).map(|_| element(r, k, depth)).collect())
                }
            };
            let n = r.range(1, 4);
            if n == 1 {
                tuple(r, k)
            } else {
                Ast::Chain((0..n).map(|_| tuple(r, k)).collect())
            }
        }
        let mut k = 0;
        let depth = r.range(0, 3);
        let ast = if r.chance(3, 4) {
            sequence(r, &mut k, depth)
        } else {
            let vars = ["a", "x"];
            let funs = ["t", "id"];
            let mut g = AstGen {
                r,
                vars: &vars,
                funs: &funs,
                allow_assign: true,
                allow_seq: true,
                distinct_names: false,
                counter: 0,
                max_nodes: 60,
                nodes: 0,
            };
            g.expr(5)
        };
        if super::c08::self_referential_opassign(&ast) {
            return;
        }
        let mode = if r.chance(1, 2) { Parens::Minimal } else { Parens::Random };
        let toks = render_ast(&ast, mode, Some(r), true);
        let src = render_spaced(&toks);
        judge_and_run(out, &toks, &src, false);
        // the same sequence with Unicode whitespace / comments between its separators
        if r.chance(1, 4) {
            if let Some(planned) = gen::render_with_plan(&toks, r, true) {
                judge_and_run(out, &toks, &planned, false);
            }
        }
        let _ = api::show_vars;
    }
}

pub fn selfcheck() -> Result<String, String> {
    super::c02::selfcheck()?;
    super::c08::selfcheck()
}

pub fn phases(cfg: &Cfg) -> Vec<Box<dyn Phase>> {
    let t = cfg.thorough;
    vec![
        Box::new(Skeletons {
            maxlen: if t { 9 } else { 7 },
        }),
        Box::new(SeqSweep {
            alphabet: gen::alphabet16(),
            maxlen: if t { 6 } else { 5 },
        }),
        Box::new(RandomSeq {
            n: cfg.n(400_000, 5_000_000),
        }),
        Box::new(DeepNest {
            n: cfg.n(3_000, 100_000),
        }),
    ]
}

//! Program execution under observation: the implementation runs on a RecordingContext (boundary events) with the
//! H2 hook recording the evaluation schedule; the reference evaluator produces the expected outcome, final
//! context and effect log. Shared by C05, C08, C09, C11, C14.

use crate::api::{self, Got};
use crate::fw::Out;
use crate::observe::{self, EvalEvent, EvalEventKind, Event, RecordingContext};
use crate::refmodel::eval::{self, outcome_matches, Model, REvent, RErr, Run};
use crate::refmodel::parse::Ast;
use crate::refmodel::value::RV;
use evalexpr::{Node, Operator};
use std::collections::BTreeMap;

#[derive(Clone, Copy, Debug, PartialEq)]
pub enum Entry {
    StrMut,
    TreeMut,
    StrImm,
    TreeImm,
}

impl Entry {
    pub fn mutable(&self) -> bool {
        matches!(self, Entry::StrMut | Entry::TreeMut)
    }
}

pub struct ImplRun {
    pub got: Got,
    pub vars_after: BTreeMap<String, RV>,
    pub effects: Vec<REvent>,
    /// identifiers looked up through Context::get_value, in order
    pub gets: Vec<String>,
    pub sets_attempted: usize,
    pub trace: Vec<EvalEvent>,
}

pub fn run_impl(src: &str, tree: Option<&Node>, model: &Model, entry: Entry, with_trace: bool) -> ImplRun {
    let log = observe::new_log();
    let ctx = api::ctx_from_model(model, &log);
    let mut rc = RecordingContext::new(ctx, log.clone());
    if with_trace {
        observe::start_eval_trace();
    }
    let got = match (entry, tree) {
        (Entry::StrMut, _) => api::eval_str_mut(src, &mut rc),
        (Entry::StrImm, _) => api::eval_str(src, &rc),
        (Entry::TreeMut, Some(t)) => api::eval_tree_mut(t, &mut rc),
        (Entry::TreeImm, Some(t)) => api::eval_tree(t, &rc),
        (_, None) => api::eval_str_mut(src, &mut rc),
    };
    let trace = if with_trace { observe::stop_eval_trace() } else { Vec::new() };
    let events = observe::take_log(&log);
    let mut effects = Vec::new();
    let mut gets = Vec::new();
    let mut sets = 0;
    for e in events {
        match e {
            Event::UserCall(n, v) => effects.push(REvent::UserCall(n, RV::from_value(&v))),
            Event::Set(n, v, ok) => {
                sets += 1;
                effects.push(REvent::Set(n, RV::from_value(&v), ok))
            },
            Event::Get(n, _) => gets.push(n),
            _ => {},
        }
    }
    ImplRun {
        got,
        vars_after: api::ctx_vars(&rc),
        effects,
        gets,
        sets_attempted: sets,
        trace,
    }
}

pub const TYPED_NAMES: [&str; 14] = [
    "Node::eval_string_with_context_mut",
    "Node::eval_int_with_context_mut",
    "Node::eval_float_with_context_mut",
    "Node::eval_number_with_context_mut",
    "Node::eval_boolean_with_context_mut",
    "Node::eval_tuple_with_context_mut",
    "Node::eval_empty_with_context_mut",
    "eval_string_with_context_mut",
    "eval_int_with_context_mut",
    "eval_float_with_context_mut",
    "eval_number_with_context_mut",
    "eval_boolean_with_context_mut",
    "eval_tuple_with_context_mut",
    "eval_empty_with_context_mut",
];

/// Runs one of the 14 typed mutable entry points on a RecordingContext and returns (effect log, final variables).
pub fn run_typed(src: &str, tree: &Node, model: &Model, which: usize) -> (Vec<REvent>, BTreeMap<String, RV>) {
    let log = observe::new_log();
    let ctx = api::ctx_from_model(model, &log);
    let mut rc = RecordingContext::new(ctx, log.clone());
    let _ = observe::guard(|| match which {
        0 => drop(tree.eval_string_with_context_mut(&mut rc)),
        1 => drop(tree.eval_int_with_context_mut(&mut rc)),
        2 => drop(tree.eval_float_with_context_mut(&mut rc)),
        3 => drop(tree.eval_number_with_context_mut(&mut rc)),
        4 => drop(tree.eval_boolean_with_context_mut(&mut rc)),
        5 => drop(tree.eval_tuple_with_context_mut(&mut rc)),
        6 => drop(tree.eval_empty_with_context_mut(&mut rc)),
        7 => drop(evalexpr::eval_string_with_context_mut(src, &mut rc)),
        8 => drop(evalexpr::eval_int_with_context_mut(src, &mut rc)),
        9 => drop(evalexpr::eval_float_with_context_mut(src, &mut rc)),
        10 => drop(evalexpr::eval_number_with_context_mut(src, &mut rc)),
        11 => drop(evalexpr::eval_boolean_with_context_mut(src, &mut rc)),
        12 => drop(evalexpr::eval_tuple_with_context_mut(src, &mut rc)),
        _ => drop(evalexpr::eval_empty_with_context_mut(src, &mut rc)),
    });
    let mut effects = Vec::new();
    for e in observe::take_log(&log) {
        match e {
            Event::UserCall(n, v) => effects.push(REvent::UserCall(n, RV::from_value(&v))),
            Event::Set(n, v, ok) => effects.push(REvent::Set(n, RV::from_value(&v), ok)),
            _ => {},
        }
    }
    (effects, api::ctx_vars(&rc))
}

pub struct RefRun {
    pub result: Result<RV, RErr>,
    pub after: Model,
    pub run: Run,
}

pub fn run_ref(ast: &Ast, model: &Model, mutable: bool) -> RefRun {
    let mut m = model.clone();
    m.mutable = mutable;
    let mut run = Run::default();
    let result = eval::eval(ast, &mut m, &mut run);
    RefRun {
        result,
        after: m,
        run,
    }
}

pub fn show_effects(e: &[REvent]) -> String {
    format!("[{}]", e.iter().map(|x| x.show()).collect::<Vec<_>>().join(" · "))
}

pub fn show_ref_result(r: &Result<RV, RErr>) -> String {
    match r {
        Ok(v) => format!("Ok({})", v.show()),
        Err(e) => format!("Err({})", e.show()),
    }
}

/// Compares the triple (result, final context, ordered effect log) of C08. Returns false if the reference leaves
/// the program unclaimed (nothing compared).
pub fn compare(out: &mut Out, rule_prefix: &str, src: &str, model: &Model, r: &RefRun, i: &ImplRun, entry: Entry) -> bool {
    if let Err(RErr::Unclaimed(_)) = &r.result {
        out.count("programs the reference leaves unclaimed (skipped)");
        return false;
    }
    let describe = || format!("{}   [entry {:?}; initial context {}; builtins {}]", src, entry, model.show_vars(), if model.builtins_off { "off" } else { "on" });
    match i.got.lifted() {
        None => {
            out.violation("panic", describe(), show_ref_result(&r.result), i.got.show());
            return true;
        },
        Some(l) => {
            if !outcome_matches(&r.result, &l) {
                out.violation(&format!("{}/result", rule_prefix), describe(), show_ref_result(&r.result), i.got.show());
                return true;
            }
        },
    }
    let exp_vars: BTreeMap<String, RV> = r.after.vars.clone();
    if !api::same_vars(&exp_vars, &i.vars_after) {
        out.violation(
            &format!("{}/final-context", rule_prefix),
            describe(),
            api::show_vars(&exp_vars),
            api::show_vars(&i.vars_after),
        );
        return true;
    }
    let same_log = r.run.log.len() == i.effects.len() && r.run.log.iter().zip(&i.effects).all(|(a, b)| a.same(b));
    if !same_log {
        out.violation(
            &format!("{}/effect-order", rule_prefix),
            describe(),
            show_effects(&r.run.log),
            show_effects(&i.effects),
        );
        return true;
    }
    true
}

/// The canonical schedule S(T) = Enter(T) · S(child_0) · … · S(child_n-1) · Apply(T), as (kind, address).
pub fn canonical_schedule(t: &Node, out: &mut Vec<(EvalEventKind, usize)>) {
    out.push((EvalEventKind::Enter, t as *const Node as usize));
    for c in t.children() {
        canonical_schedule(c, out);
    }
    out.push((EvalEventKind::Apply, t as *const Node as usize));
}

fn counts_as_ast_node(n: &Node) -> bool {
    !matches!(n.operator(), Operator::RootNode | Operator::VariableIdentifierWrite { .. })
}

fn index_nodes<'a>(t: &'a Node, map: &mut BTreeMap<usize, &'a Node>) {
    map.insert(t as *const Node as usize, t);
    for c in t.children() {
        index_nodes(c, map);
    }
}

/// Online check of the trace specification of DESIGN §3.4 on one evaluation of `tree`.
/// `ref_applied`: number of reference AST nodes whose application was reached (None: reference unclaimed).
pub fn check_schedule(
    out: &mut Out,
    rule_prefix: &str,
    src: &str,
    tree: &Node,
    trace: &[EvalEvent],
    ok_result: bool,
    mutable: bool,
    ref_applied: Option<u64>,
) {
    if trace.is_empty() {
        out.count("H2: hook silent (no evaluation events; schedule not checked)");
        return;
    }
    out.count_n("H2 evaluation events", trace.len() as u64);
    let mut canon = Vec::new();
    canonical_schedule(tree, &mut canon);
    let fail = |out: &mut Out, what: String, pos: usize| {
        let mut nodes = BTreeMap::new();
        index_nodes(tree, &mut nodes);
        let name = |a: usize| nodes.get(&a).map(|n| crate::refmodel::parse::op_name(n.operator())).unwrap_or_else(|| format!("<node outside the tree {:#x}>", a));
        let shown: Vec<String> = trace.iter().take(pos + 2).map(|e| format!("{:?}({})", e.kind, name(e.node))).collect();
        out.violation(
            &format!("{}/schedule", rule_prefix),
            src.to_string(),
            format!("a prefix of Enter(T)·S(children left to right)·Apply(T); {}", what),
            format!("event #{}: trace {}", pos, shown.join(" ")),
        );
    };
    if trace.len() > canon.len() {
        fail(out, "no node is evaluated twice".into(), canon.len());
        return;
    }
    for (k, e) in trace.iter().enumerate() {
        if (e.kind, e.node) != canon[k] {
            fail(out, "each operand exactly once, left to right, before the operator is applied".into(), k);
            return;
        }
        if e.mutable != mutable {
            fail(out, format!("every node evaluated through the {} path", if mutable { "mutable" } else { "immutable" }), k);
            return;
        }
    }
    if ok_result && trace.len() != canon.len() {
        fail(out, "a successful evaluation applies every node".into(), trace.len().saturating_sub(1));
        return;
    }
    if !ok_result && trace.last().map(|e| e.kind) != Some(EvalEventKind::Apply) {
        fail(out, "a failing evaluation stops in the application of the failing node".into(), trace.len() - 1);
        return;
    }
    if let Some(exp) = ref_applied {
        let mut nodes = BTreeMap::new();
        index_nodes(tree, &mut nodes);
        let applied = trace
            .iter()
            .filter(|e| e.kind == EvalEventKind::Apply && nodes.get(&e.node).map_or(false, |n| counts_as_ast_node(n)))
            .count() as u64;
        if applied != exp {
            out.violation(
                &format!("{}/stops-at-first-failure", rule_prefix),
                src.to_string(),
                format!("{} operator applications reached before the evaluation finished or failed", exp),
                format!("{} applications observed by the H2 hook", applied),
            );
            return;
        }
    }
    // evidence: distinct schedules (shape of the trace, by kind and tree position)
    let mut sig = String::new();
    for e in trace.iter().take(64) {
        sig.push(if e.kind == EvalEventKind::Enter { 'E' } else { 'A' });
    }
    sig.push_str(if ok_result { "+" } else { "-" });
    out.seen("evaluation schedules (H2)", &sig);
}

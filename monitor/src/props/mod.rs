//! One workload + oracle module per property.

use crate::fw::{Cfg, Phase};

pub mod c01;
pub mod c02;
pub mod c03;
pub mod c04;
pub mod c05;
pub mod c06;
pub mod c07;
pub mod c08;
pub mod c09;
pub mod c10;
pub mod c11;
pub mod c12;
pub mod c13;
pub mod c14;
pub mod exec;
pub mod synt;

pub fn build(cfg: &Cfg) -> (Vec<Box<dyn Phase>>, Result<String, String>) {
    match cfg.property.as_str() {
        "C01" => (c01::phases(cfg), c01::selfcheck()),
        "C02" => (c02::phases(cfg), c02::selfcheck()),
        "C04" => (c04::phases(cfg), c04::selfcheck()),
        "C05" => (c05::phases(cfg), c05::selfcheck()),
        "C06" => (c06::phases(cfg), c06::selfcheck()),
        "C07" => (c07::phases(cfg), c07::selfcheck()),
        "C08" => (c08::phases(cfg), c08::selfcheck()),
        "C11" => (c11::phases(cfg), c11::selfcheck()),
        "C09" => (c09::phases(cfg), c09::selfcheck()),
        "C12" => (c12::phases(cfg), c12::selfcheck()),
        "C14" => (c14::phases(cfg), c14::selfcheck()),
        "C13" => (c13::phases(cfg), c13::selfcheck()),
        "C03" => (c03::phases(cfg), c03::selfcheck()),
        "C10" => (c10::phases(cfg), c10::selfcheck()),
        other => (Vec::new(), Err(format!("unknown property {}", other))),
    }
}

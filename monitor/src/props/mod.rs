//! One workload + oracle module per property.

use crate::fw::{Cfg, Phase};

pub mod c03;
pub mod c10;

pub fn build(cfg: &Cfg) -> (Vec<Box<dyn Phase>>, Result<String, String>) {
    match cfg.property.as_str() {
        "C03" => (c03::phases(cfg), c03::selfcheck()),
        "C10" => (c10::phases(cfg), c10::selfcheck()),
        other => (Vec::new(), Err(format!("unknown property {}", other))),
    }
}

//! C03 — operators compute exact, correctly typed results or a typed error.

use crate::api::{self, Built, Ctx, Got};
use crate::fw::{Cfg, Out, Phase};
use crate::gen;
use crate::refmodel::errs::ErrClass;
use crate::refmodel::eval::{refop, refun, RErr};
use crate::refmodel::lex::BINOPS;
use crate::refmodel::value::RV;
use crate::rng::Rng;
use evalexpr::{ContextWithMutableVariables, Node};

pub const OPASSIGN: [&str; 8] = ["+", "-", "*", "/", "%", "^", "&&", "||"];

fn accept(exp: &Result<RV, RErr>, got: &Got) -> bool {
    match (exp, got) {
        (_, Got::Panic(_)) => false,
        (Ok(v), Got::Val(g)) => v.same(g),
        (Err(RErr::Class(c)), Got::Err(g, _)) => c == g,
        (Err(RErr::AnyError), Got::Err(..)) => true,
        // MIN % -1: mathematically 0, or an arithmetic error: both readings accepted, nothing else
        (Err(RErr::Unclaimed(_)), Got::Val(RV::Int(0))) => true,
        (Err(RErr::Unclaimed(_)), Got::Err(ErrClass::Arith, _)) => true,
        _ => false,
    }
}

fn show_exp(e: &Result<RV, RErr>) -> String {
    match e {
        Ok(v) => format!("Ok({})", v.show()),
        Err(e) => format!("Err({})", e.show()),
    }
}

fn ctx_ab(a: &RV, b: &RV) -> Ctx {
    let mut c = Ctx::new();
    c.set_value("a".into(), a.to_value()).unwrap();
    c.set_value("b".into(), b.to_value()).unwrap();
    c
}

fn must_build(src: &str) -> Node {
    match api::build(src) {
        Built::Tree(t) => t,
        Built::Err(_, d) => panic!("harness: `{}` must precompile, got {}", src, d),
        Built::Panic(p) => panic!("harness: `{}` must precompile, panicked {}", src, p),
    }
}

struct Trees {
    bin: Vec<Option<Node>>,
    neg: Option<Node>,
    not: Option<Node>,
    opassign: Vec<Option<Node>>,
    /// builtin functions disabled, and every builtin name bound to a user function that returns a marker: operators
    /// are part of the language, not of the function library
    hostile: Ctx,
}

fn hostile_ctx() -> Ctx {
    use evalexpr::{Context, ContextWithMutableFunctions, Function, Value};
    let mut c = Ctx::new();
    for n in crate::refmodel::builtins::BUILTINS.iter() {
        let _ = c.set_function(n.to_string(), Function::new(|_| Ok(Value::String("<user function called by an operator>".into()))));
    }
    let _ = c.set_builtin_functions_disabled(true);
    c
}

fn trees() -> Trees {
    let b = |s: String| match api::build(&s) {
        Built::Tree(t) => Some(t),
        _ => None,
    };
    Trees {
        bin: BINOPS.iter().map(|op| b(format!("a {} b", op))).collect(),
        neg: b("-a".into()),
        not: b("!a".into()),
        opassign: OPASSIGN.iter().map(|op| b(format!("a {}= b", op))).collect(),
        hostile: hostile_ctx(),
    }
}

/// one operator application through three routes: variables, literals (if expressible), op-assignment
fn check_case(out: &mut Out, trees: &Trees, opi: usize, a: &RV, b: &RV, literals: bool, opassign: bool) {
    let op = BINOPS[opi];
    let exp = refop(op, a, b);
    let key = format!("{} {} {}", a.show(), op, b.show());
    out.begin(|| key.clone());
    // route 1: operands bound as variables
    match &trees.bin[opi] {
        Some(t) => {
            let c = ctx_ab(a, b);
            let got = api::eval_tree(t, &c);
            out.eval();
            out.nontrivial(&key);
            out.count(&format!("op {}", op));
            match &exp {
                Ok(v) => out.seen("result types", &format!("{:?}", v.ty())),
                Err(e) => out.seen("result types", &e.show()),
            }
            out.sample(|| format!("{}  =>  {}", key, got.show()));
            if !accept(&exp, &got) {
                out.violation(
                    "binary-operator/variables",
                    format!("a {} b with a={} b={}", op, a.show(), b.show()),
                    show_exp(&exp),
                    got.show(),
                );
            }
            // route 1c: a context without builtins whose user functions shadow every builtin name
            let mut h = trees.hostile.clone();
            let _ = h.set_value("a".into(), a.to_value());
            let _ = h.set_value("b".into(), b.to_value());
            let got_h = api::eval_tree(t, &h);
            out.eval();
            out.count("function-hostile context route");
            if !accept(&exp, &got_h) {
                out.violation(
                    "binary-operator/depends-on-context-functions",
                    format!("a {} b with a={} b={} in a context with builtins disabled and all 49 builtin names bound to user functions", op, a.show(), b.show()),
                    show_exp(&exp),
                    got_h.show(),
                );
            }
        },
        None => out.violation(
            "binary-operator/precompile",
            format!("a {} b", op),
            "precompiles".into(),
            "build_operator_tree failed".into(),
        ),
    }
    // route 1b: the same variable on both sides (an implementation may not equate "same storage" with "equal")
    if a.same(b) {
        if let Built::Tree(t) = api::build(&format!("a {} a", op)) {
            let c = ctx_ab(a, b);
            let got = api::eval_tree(&t, &c);
            let got_mut = api::eval_tree_mut(&t, &mut c.clone());
            out.evals(2);
            out.count("same-variable route");
            if !accept(&exp, &got) || !accept(&exp, &got_mut) {
                out.violation(
                    "binary-operator/same-variable",
                    format!("a {} a with a={}", op, a.show()),
                    show_exp(&exp),
                    format!("read-only {} / mutable {}", got.show(), got_mut.show()),
                );
            }
        }
    }
    // route 2: operands as literals
    if literals {
        if let (Some(la), Some(lb)) = (a.literal(), b.literal()) {
            let src = format!("({}) {} ({})", la, op, lb);
            let got = api::eval_str(&src, &Ctx::new());
            out.eval();
            out.count("literal route");
            if !accept(&exp, &got) {
                out.violation("binary-operator/literals", src, show_exp(&exp), got.show());
            }
            // the unparenthesised spelling where both operands are plain words
            if !la.starts_with('(') && !lb.starts_with('(') {
                let src = format!("{} {} {}", la, op, lb);
                let got = api::eval_str(&src, &Ctx::new());
                out.eval();
                if !accept(&exp, &got) {
                    out.violation("binary-operator/literals", src, show_exp(&exp), got.show());
                }
            }
        }
    }
    // route 3: `a op= b` behaves as `a = a op b` (type-checked write)
    if opassign {
        if let Some(k) = OPASSIGN.iter().position(|o| *o == op) {
            if let Some(t) = &trees.opassign[k] {
                let mut c = ctx_ab(a, b);
                let got = api::eval_tree_mut(t, &mut c);
                out.eval();
                out.count("op-assign route");
                let after = api::ctx_vars(&c);
                let a_after = after.get("a").cloned();
                let b_after = after.get("b").cloned();
                let unchanged = a_after.as_ref().map_or(false, |x| x.same(a));
                let ok = match &exp {
                    Ok(v) if v.ty() == a.ty() => {
                        matches!(&got, Got::Val(RV::Empty)) && a_after.as_ref().map_or(false, |x| x.same(v))
                    },
                    Ok(_) => matches!(&got, Got::Err(ErrClass::Type, _)) && unchanged,
                    Err(RErr::Unclaimed(_)) => {
                        (matches!(&got, Got::Val(RV::Empty)) && a_after.as_ref().map_or(false, |x| x.same(&RV::Int(0))))
                            || (matches!(&got, Got::Err(ErrClass::Arith, _)) && unchanged)
                    },
                    Err(_) => accept(&exp, &got) && unchanged,
                };
                let b_ok = b_after.as_ref().map_or(false, |x| x.same(b)) && after.len() == 2;
                if !ok || !b_ok {
                    out.violation(
                        "op-assign",
                        format!("a {}= b with a={} b={}", op, a.show(), b.show()),
                        format!("like a = a {} b: {}", op, show_exp(&exp)),
                        format!("{} ; context afterwards {}", got.show(), api::show_vars(&after)),
                    );
                }
            }
        }
    }
}

fn check_prefix(out: &mut Out, trees: &Trees, which: usize, a: &RV, literals: bool) {
    let (name, sym, tree) = if which == 0 { ("neg", "-", &trees.neg) } else { ("!", "!", &trees.not) };
    let exp = refun(name, a);
    let key = format!("{}{}", sym, a.show());
    out.begin(|| key.clone());
    if let Some(t) = tree {
        let mut c = Ctx::new();
        c.set_value("a".into(), a.to_value()).unwrap();
        let got = api::eval_tree(t, &c);
        out.eval();
        out.nontrivial(&key);
        out.count(&format!("op prefix{}", sym));
        out.sample(|| format!("{}  =>  {}", key, got.show()));
        if !accept(&exp, &got) {
            out.violation("prefix-operator/variables", format!("{}a with a={}", sym, a.show()), show_exp(&exp), got.show());
        }
        let mut h = trees.hostile.clone();
        let _ = h.set_value("a".into(), a.to_value());
        let got_h = api::eval_tree(t, &h);
        out.eval();
        if !accept(&exp, &got_h) {
            out.violation("prefix-operator/depends-on-context-functions", format!("{}a with a={} in a context with builtins disabled and all builtin names bound to user functions", sym, a.show()), show_exp(&exp), got_h.show());
        }
    }
    if literals {
        if let Some(l) = a.literal() {
            let src = format!("{}({})", sym, l);
            let got = api::eval_str(&src, &Ctx::new());
            out.eval();
            if !accept(&exp, &got) {
                out.violation("prefix-operator/literals", src, show_exp(&exp), got.show());
            }
        }
    }
}

struct Matrix {
    pool: Vec<RV>,
    trees: Trees,
}

impl Phase for Matrix {
    fn name(&self) -> String {
        "operator-matrix".into()
    }
    fn len(&self) -> u64 {
        let n = self.pool.len() as u64;
        14 * n * n + 2 * n
    }
    fn exhaustive(&self) -> bool {
        true
    }
    fn run(&mut self, idx: u64, _rng: &mut Rng, out: &mut Out) {
        let n = self.pool.len() as u64;
        if idx < 14 * n * n {
            let opi = (idx / (n * n)) as usize;
            let i = ((idx / n) % n) as usize;
            let j = (idx % n) as usize;
            let (a, b) = (self.pool[i].clone(), self.pool[j].clone());
            check_case(out, &self.trees, opi, &a, &b, true, true);
        } else {
            let k = idx - 14 * n * n;
            let which = (k / n) as usize;
            let a = self.pool[(k % n) as usize].clone();
            check_prefix(out, &self.trees, which, &a, true);
        }
    }
}

struct RandomPairs {
    n: u64,
    trees: Trees,
}

fn random_operand(r: &mut Rng) -> RV {
    match r.below(16) {
        0 => {
            // square and cube roots of the overflow boundary, +-2
            let base = *r.pick(&[3037000499i64, 2097151, 55108, 65536, 4294967296, 1 << 31]);
            let v = base + r.below(5) as i64 - 2;
            RV::Int(if r.chance(1, 2) { v } else { -v })
        },
        1..=5 => RV::Int(r.int_bitlen()),
        6..=10 => RV::Float(r.float_bits()),
        11 => RV::Float((r.int_bitlen() as f64) * if r.chance(1, 2) { 1.0 } else { 0.5 }),
        12 => RV::Int(*r.pick(&gen::int_pool())),
        13 => RV::Str(gen::random_string(r, 6)),
        14 => RV::Bool(r.chance(1, 2)),
        _ => gen::random_value(r, 2),
    }
}

impl Phase for RandomPairs {
    fn name(&self) -> String {
        "random-operands".into()
    }
    fn len(&self) -> u64 {
        self.n
    }
    fn run(&mut self, _idx: u64, r: &mut Rng, out: &mut Out) {
        let a = random_operand(r);
        // correlated operands: equal values, neighbours, same magnitude — where comparison and overflow bugs hide
        let b = match r.below(10) {
            0 => a.clone(),
            1 => match &a {
                RV::Int(i) => RV::Int(i.wrapping_add(1)),
                RV::Float(f) => RV::Float(f64::from_bits(f.to_bits().wrapping_add(1))),
                _ => random_operand(r),
            },
            2 => match &a {
                RV::Int(i) => RV::Float(*i as f64),
                RV::Float(f) if f.is_finite() && f.abs() < 9e18 => RV::Int(*f as i64),
                _ => random_operand(r),
            },
            3 => match &a {
                RV::Int(i) => RV::Int(i.wrapping_neg()),
                _ => random_operand(r),
            },
            // the partner that puts a product / sum / difference right at the overflow boundary
            4 => match &a {
                RV::Int(i) if *i != 0 && *i != -1 => RV::Int((i64::MAX / *i).wrapping_add(r.below(3) as i64 - 1)),
                _ => random_operand(r),
            },
            5 => match &a {
                RV::Int(i) => RV::Int(if r.chance(1, 2) { i64::MAX.wrapping_sub(*i) } else { i64::MIN.wrapping_sub(*i) }.wrapping_add(r.below(3) as i64 - 1)),
                _ => random_operand(r),
            },
            _ => random_operand(r),
        };
        if r.chance(1, 12) {
            let which = r.below(2);
            check_prefix(out, &self.trees, which, &a, true);
            return;
        }
        let opi = r.below(14);
        let lit = r.chance(1, 3);
        let opa = r.chance(1, 3);
        check_case(out, &self.trees, opi, &a, &b, lit, opa);
    }
}

/// Back-to-back evaluations whose operands are equal under `==` but are different values (the sign of zero, an integer
/// and the float of the same magnitude, one NaN and another): the second must not inherit anything from the first.
struct Twins {
    trees: Trees,
    partners: Vec<RV>,
}

fn twin_pairs() -> Vec<(RV, RV)> {
    let f = RV::Float;
    let i = RV::Int;
    let base = vec![
        (f(0.0), f(-0.0)),
        (i(0), f(0.0)),
        (i(0), f(-0.0)),
        (i(1), f(1.0)),
        (i(-1), f(-1.0)),
        (i(2), f(2.0)),
        (i(3), f(3.0)),
        (i(1 << 53), f(9007199254740992.0)),
        (i(i64::MAX), f(9223372036854775807.0)),
        (i(i64::MIN), f(-9223372036854775808.0)),
        (f(f64::NAN), f(-f64::NAN)),
        (RV::Str("".into()), RV::Empty),
        (RV::Tuple(vec![f(0.0)]), RV::Tuple(vec![f(-0.0)])),
        (RV::Tuple(vec![i(1)]), RV::Tuple(vec![f(1.0)])),
    ];
    let mut all = Vec::new();
    for (a, b) in base {
        all.push((a.clone(), b.clone()));
        all.push((b, a));
    }
    all
}

impl Phase for Twins {
    fn name(&self) -> String {
        "back-to-back evaluations on ==-equal but different operands (sign of zero, int/float twins)".into()
    }
    fn len(&self) -> u64 {
        (twin_pairs().len() * self.partners.len()) as u64
    }
    fn exhaustive(&self) -> bool {
        true
    }
    fn run(&mut self, idx: u64, _r: &mut Rng, out: &mut Out) {
        let pairs = twin_pairs();
        let (a1, a2) = &pairs[idx as usize / self.partners.len()];
        let p = &self.partners[idx as usize % self.partners.len()];
        out.begin(|| format!("twins {} / {} against {}", a1.show(), a2.show(), p.show()));
        for opi in 0..BINOPS.len() {
            let op = BINOPS[opi];
            let t = match &self.trees.bin[opi] {
                Some(t) => t,
                None => continue,
            };
            for side in 0..3 {
                // the twin on the left, on the right, on both sides
                let (x1, y1, x2, y2) = match side {
                    0 => (a1, p, a2, p),
                    1 => (p, a1, p, a2),
                    _ => (a1, a1, a2, a2),
                };
                let c1 = ctx_ab(x1, y1);
                let c2 = ctx_ab(x2, y2);
                let g1 = api::eval_tree(t, &c1);
                let g2 = api::eval_tree(t, &c2);
                out.evals(2);
                out.count("twin evaluations");
                let (e1, e2) = (refop(op, x1, y1), refop(op, x2, y2));
                out.nontrivial(&format!("{} {} {} | {} {}", x1.show(), op, y1.show(), x2.show(), y2.show()));
                if !accept(&e1, &g1) || !accept(&e2, &g2) {
                    out.violation(
                        "binary-operator/back-to-back",
                        format!("a {} b with a={} b={} and directly afterwards with a={} b={}", op, x1.show(), y1.show(), x2.show(), y2.show()),
                        format!("{} then {}", show_exp(&e1), show_exp(&e2)),
                        format!("{} then {}", g1.show(), g2.show()),
                    );
                }
            }
        }
    }
}

/// A tree precompiled from literals and then edited through the public `children_mut` / `operator_mut`: what is
/// evaluated are the operands and the operator the tree holds now.
struct EditedTrees {
    n: u64,
    donors: Trees,
}

impl Phase for EditedTrees {
    fn name(&self) -> String {
        "trees built from literals, evaluated, edited in place (operands, operator) and evaluated again".into()
    }
    fn len(&self) -> u64 {
        self.n
    }
    fn run(&mut self, _idx: u64, r: &mut Rng, out: &mut Out) {
        use evalexpr::Operator;
        let firsts = [RV::Int(2), RV::Int(3), RV::Int(i64::MAX), RV::Int(7), RV::Int(0), RV::Float(2.5), RV::Float(0.0), RV::Bool(true), RV::Str("s".into())];
        let (a0, b0) = (r.pick(&firsts).clone(), r.pick(&firsts).clone());
        let opi = r.below(BINOPS.len());
        let op = BINOPS[opi];
        let src = format!("{} {} {}", a0.literal().unwrap(), op, b0.literal().unwrap());
        out.begin(|| format!("edited tree from `{}`", src));
        let mut t = match api::build(&src) {
            Built::Tree(t) => t,
            _ => return,
        };
        let shape_ok = t.children().len() == 1 && t.children()[0].children().len() == 2 && t.children()[0].children().iter().all(|c| matches!(c.operator(), Operator::Const { .. }));
        if !shape_ok {
            out.count("edited trees: unexpected shape, skipped");
            return;
        }
        let empty = Ctx::new();
        let mut hist = vec![format!("build `{}`", src)];
        let (mut a, mut b, mut cur) = (a0, b0, op);
        let check = |t: &Node, a: &RV, b: &RV, cur: &'static str, hist: &Vec<String>, out: &mut Out| {
            let mutable = hist.len() % 2 == 0;
            let got = if mutable { api::eval_tree_mut(t, &mut Ctx::new()) } else { api::eval_tree(t, &empty) };
            out.eval();
            let exp = refop(cur, a, b);
            if !accept(&exp, &got) {
                out.violation("binary-operator/edited-tree", hist.join(" ; ") + " ; evaluate", format!("{} {} {} = {}", a.show(), cur, b.show(), show_exp(&exp)), got.show());
            }
        };
        if r.chance(2, 3) {
            check(&t, &a, &b, cur, &hist, out);
        }
        for _ in 0..r.range(1, 4) {
            match r.below(3) {
                0 | 1 => {
                    let k = r.below(2);
                    let v = if r.chance(1, 2) { random_operand(r) } else { r.pick(&gen::small_pool()).clone() };
                    *t.children_mut()[0].children_mut()[k].operator_mut() = Operator::Const { value: v.to_value() };
                    hist.push(format!("operand {} := {}", k, v.show()));
                    if k == 0 {
                        a = v
                    } else {
                        b = v
                    }
                },
                _ => {
                    let k2 = r.below(BINOPS.len());
                    if let Some(d) = &self.donors.bin[k2] {
                        *t.children_mut()[0].operator_mut() = d.children()[0].operator().clone();
                        cur = BINOPS[k2];
                        hist.push(format!("operator := {}", cur));
                    }
                },
            }
            out.count("tree edits");
            check(&t, &a, &b, cur, &hist, out);
        }
        out.nontrivial(&hist.join(";"));
        out.sample(|| hist.join(" ; "));
    }
}

pub fn selfcheck() -> Result<String, String> {
    // README examples
    let ck = |op: &str, a: RV, b: RV, want: RV| -> Result<(), String> {
        match refop(op, &a, &b) {
            Ok(v) if v.same(&want) => Ok(()),
            other => Err(format!("reference operator table disagrees with the README: {} {} {} gave {:?}", a.show(), op, b.show(), other.map(|v| v.show()).map_err(|e| e.show()))),
        }
    };
    ck("/", RV::Int(1), RV::Int(2), RV::Int(0))?;
    ck("/", RV::Float(1.0), RV::Int(2), RV::Float(0.5))?;
    ck("^", RV::Int(2), RV::Int(2), RV::Float(4.0))?;
    ck("+", RV::Str("abc".into()), RV::Str("def".into()), RV::Str("abcdef".into()))?;
    ck("%", RV::Int(-7), RV::Int(2), RV::Int(-1))?;
    ck("<", RV::Int(1), RV::Float(1.5), RV::Bool(true))?;
    ck("==", RV::Int(1), RV::Float(1.0), RV::Bool(false))?;
    if !matches!(refop("+", &RV::Int(i64::MAX), &RV::Int(1)), Err(RErr::Class(ErrClass::Arith))) {
        return Err("reference: MAX + 1 must be an arithmetic error".into());
    }
    if !matches!(refop("&&", &RV::Int(1), &RV::Bool(true)), Err(RErr::Class(ErrClass::Type))) {
        return Err("reference: 1 && true must be a type error".into());
    }
    Ok("operator table agrees with 9 README facts".into())
}

pub fn phases(cfg: &Cfg) -> Vec<Box<dyn Phase>> {
    vec![
        Box::new(Matrix {
            pool: gen::full_pool(),
            trees: trees(),
        }),
        Box::new(Twins {
            trees: trees(),
            partners: {
                let mut p = gen::full_pool();
                for x in [-1.0, -2.0, -3.0, 3.0, 0.5, -0.5, 1e300, -1e300] {
                    p.push(RV::Float(x));
                }
                for x in [-3i64, -2, 2, 3, 5] {
                    p.push(RV::Int(x));
                }
                p
            },
        }),
        Box::new(EditedTrees {
            n: cfg.n(150_000, 4_000_000),
            donors: trees(),
        }),
        Box::new(RandomPairs {
            n: cfg.n(3_000_000, 150_000_000),
            trees: trees(),
        }),
    ]
}

#[allow(dead_code)]
fn _unused(_: Node) {
    let _ = must_build;
}

//! C02 — precedence and associativity alone determine the operator tree.
//! Also hosts the token-sweep phase shared with C05 / C13.

use super::synt::{judge, Want};
use crate::fw::{Cfg, Out, Phase};
use crate::gen::{self, AstGen};
use crate::observe;
use crate::refmodel::lex::{lex, render_spaced, Tok, ASSIGNOPS, BINOPS};
use crate::refmodel::parse::{classify, render_ast, Ast, Class, Parens};
use crate::refmodel::value::RV;
use crate::rng::Rng;

/// every token sequence of length 1..=maxlen over an alphabet
pub struct TokenSweep {
    pub label: String,
    pub alphabet: Vec<Tok>,
    pub maxlen: u32,
    pub want: Want,
    pub rule_prefix: &'static str,
    /// only judge sequences containing `,` or `;` (C05)
    pub only_sequences: bool,
    /// record parser stack shapes (H1) for every n-th case
    pub hook_every: u64,
}

impl Phase for TokenSweep {
    fn name(&self) -> String {
        format!("token-sequences {} len<={}", self.label, self.maxlen)
    }
    fn len(&self) -> u64 {
        gen::seq_space(self.alphabet.len() as u64, self.maxlen)
    }
    fn exhaustive(&self) -> bool {
        true
    }
    fn run(&mut self, idx: u64, _r: &mut Rng, out: &mut Out) {
        let seq = gen::decode_seq(idx, self.alphabet.len() as u64, self.maxlen);
        let toks: Vec<Tok> = seq.iter().map(|i| self.alphabet[*i].clone()).collect();
        if self.only_sequences && !toks.iter().any(|t| t.is_op(",") || t.is_op(";")) {
            return;
        }
        let src = render_spaced(&toks);
        out.begin(|| src.clone());
        let hook = self.hook_every > 0 && idx % self.hook_every == 0;
        if hook {
            observe::start_parser_trace();
        }
        let v = judge(out, &toks, &src, self.want, self.rule_prefix);
        // the same token sequence without any optional blank (adjacent literals, signs against digits, …)
        let tight = gen::render_tight(&toks);
        if tight != src {
            judge(out, &toks, &tight, self.want, self.rule_prefix);
        }
        if idx % 16 == 3 {
            if let Some(planned) = gen::render_with_plan(&toks, _r, true) {
                judge(out, &toks, &planned, self.want, self.rule_prefix);
            }
        }
        if hook {
            let states = observe::stop_parser_trace();
            out.count_n("H1 parser-step events", states.len() as u64);
            for s in &states {
                out.seen("parser stack shapes (H1)", &observe::shape_signature(s));
            }
        }
        let relevant = match (&v.class, self.want) {
            (Class::Well, Want::WellFormed) | (Class::Well, Want::Both) => true,
            (Class::Ill(_), Want::IllFormed) | (Class::Ill(_), Want::Both) => true,
            _ => false,
        };
        if relevant {
            out.nontrivial(&src);
            out.sample(|| match &v.ast {
                Some(a) => format!("`{}`  WELL  {}", src, a.sx()),
                None => format!("`{}`  {:?}", src, v.class),
            });
        }
    }
}

// ---------------------------------------------------------------------------------------------------

/// all ASTs with at most `max_ops` operator nodes over all operators; leaves alternate by position so that
/// neighbouring operands differ
pub fn enumerate_asts(max_ops: usize) -> Vec<Ast> {
    enumerate_asts_with(max_ops, &mut |_, pos| match pos % 4 {
        0 => Ast::Read("a".into()),
        1 => Ast::Const(RV::Int(1)),
        2 => Ast::Read("b".into()),
        _ => Ast::Const(RV::Float(2.5)),
    })
}

/// `leaf(ast_index, leaf_position)` makes the leaves
pub fn enumerate_asts_with(max_ops: usize, leaf: &mut dyn FnMut(usize, usize) -> Ast) -> Vec<Ast> {
    // shapes: trees of operator kinds with holes; built bottom-up by number of operator nodes
    #[derive(Clone)]
    enum Shape {
        Leaf,
        Un(usize, Box<Shape>),
        Bin(usize, Box<Shape>, Box<Shape>),
    }
    let n_un = 2 + ASSIGNOPS.len() + 1; // prefix -, prefix !, 9 assignments, call
    let n_bin = BINOPS.len() + 2; // 14 binary, tuple, chain
    let mut by_size: Vec<Vec<Shape>> = vec![vec![Shape::Leaf]];
    for n in 1..=max_ops {
        let mut v = Vec::new();
        for k in 0..n_un {
            for s in &by_size[n - 1] {
                v.push(Shape::Un(k, Box::new(s.clone())));
            }
        }
        for k in 0..n_bin {
            for i in 0..n {
                for l in &by_size[i] {
                    for r in &by_size[n - 1 - i] {
                        v.push(Shape::Bin(k, Box::new(l.clone()), Box::new(r.clone())));
                    }
                }
            }
        }
        by_size.push(v);
    }
    fn fill(s: &Shape, index: usize, counter: &mut usize, leaf: &mut dyn FnMut(usize, usize) -> Ast) -> Ast {
        match s {
            Shape::Leaf => {
                let l = leaf(index, *counter);
                *counter += 1;
                l
            },
            Shape::Un(k, x) => match *k {
                0 => Ast::Un("neg", Box::new(fill(x, index, counter, leaf))),
                1 => Ast::Un("!", Box::new(fill(x, index, counter, leaf))),
                k if k < 2 + ASSIGNOPS.len() => {
                    let t = if *counter % 2 == 0 { "x" } else { "y" };
                    Ast::Assign(ASSIGNOPS[k - 2], t.into(), Box::new(fill(x, index, counter, leaf)))
                },
                _ => Ast::Call("f".into(), Box::new(fill(x, index, counter, leaf))),
            },
            Shape::Bin(k, l, r) => {
                let a = fill(l, index, counter, leaf);
                let b = fill(r, index, counter, leaf);
                if *k < BINOPS.len() {
                    Ast::Bin(BINOPS[*k], Box::new(a), Box::new(b))
                } else if *k == BINOPS.len() {
                    Ast::Tuple(vec![a, b])
                } else {
                    Ast::Chain(vec![a, b])
                }
            },
        }
    }
    let mut out = Vec::new();
    for shapes in by_size.iter().skip(1) {
        for s in shapes {
            let mut c = 0;
            let idx = out.len();
            out.push(fill(s, idx, &mut c, leaf));
        }
    }
    out
}

/// renders an AST in the given mode and judges the result; self-check: the reference parser must give back the AST
pub fn check_ast(out: &mut Out, ast: &Ast, mode: Parens, rng: Option<&mut Rng>, juxtapose: bool, rule_prefix: &str) {
    let toks = render_ast(ast, mode, rng, juxtapose);
    let src = render_spaced(&toks);
    out.begin(|| src.clone());
    // oracle self-check (DESIGN §2.3 rule 4): RefParse(RefLex(RefRender(ast))) == ast
    let relexed = lex(&src);
    let self_ok = match &relexed {
        Ok(l) if !l.unclaimed && l.toks.len() == toks.len() && l.toks.iter().zip(&toks).all(|(a, b)| a == b) => {
            match classify(&l.toks) {
                (Class::Well, Some(back)) => back.same(ast),
                _ => false,
            }
        },
        _ => false,
    };
    if !self_ok {
        out.inconclusive(format!("oracle self-check failed: rendering `{}` of {} does not parse back to it", src, ast.sx()));
        return;
    }
    let v = judge(out, &toks, &src, Want::WellFormed, rule_prefix);
    let tight = gen::render_tight(&toks);
    if tight != src {
        judge(out, &toks, &tight, Want::WellFormed, rule_prefix);
    }
    // and under a random separator plan (Unicode whitespace, comments) now and then
    if out.evaluations % 8 == 0 {
        let mut r2 = Rng::new(out.evaluations ^ 0x5e9a);
        if let Some(planned) = gen::render_with_plan(&toks, &mut r2, true) {
            judge(out, &toks, &planned, Want::WellFormed, rule_prefix);
        }
    }
    out.nontrivial(&src);
    out.sample(|| format!("`{}`  ==  {}   [{:?}]", src, ast.sx(), mode));
    let _ = v;
}

struct AstExhaustive {
    asts: Vec<Ast>,
}

impl Phase for AstExhaustive {
    fn name(&self) -> String {
        "all-asts<=3-operators x {minimal,full,random} parentheses".into()
    }
    fn len(&self) -> u64 {
        self.asts.len() as u64 * 3
    }
    fn exhaustive(&self) -> bool {
        true
    }
    fn run(&mut self, idx: u64, r: &mut Rng, out: &mut Out) {
        let ast = self.asts[(idx / 3) as usize].clone();
        match idx % 3 {
            0 => check_ast(out, &ast, Parens::Minimal, None, false, "precedence"),
            1 => check_ast(out, &ast, Parens::Full, None, false, "precedence"),
            _ => check_ast(out, &ast, Parens::Random, Some(r), true, "precedence"),
        }
    }
}

/// Leaves that look like something else: digit-initial words ending in e/E (a sign after them must stay a sign unless
/// digits follow), identifiers containing typographic operator look-alikes, text constants made of digits and signs.
/// All one-operator trees over all ordered leaf pairs, and the two-operator trees under rotating leaf choices.
fn hostile_leaf(k: usize) -> Ast {
    const READS: [&str; 14] = [
        "2e", "1E", "30e", "2.5e", "7E", "a\u{2212}b", "c\u{d7}d", "p\u{f7}q", "m\u{2264}n", "m\u{2265}n", "m\u{2260}n", "a", "b", "e1",
    ];
    let consts: [RV; 9] = [
        RV::Str("3".into()),
        RV::Str("+3".into()),
        RV::Str("10".into()),
        RV::Str("".into()),
        RV::Str("e5".into()),
        RV::Int(3),
        RV::Int(10),
        RV::Float(2.5),
        RV::Bool(true),
    ];
    let k = k % (READS.len() + consts.len());
    if k < READS.len() {
        Ast::Read(READS[k].into())
    } else {
        Ast::Const(consts[k - READS.len()].clone())
    }
}
const HOSTILE_LEAVES: usize = 23;

fn hostile_leaf_asts(rotations: usize) -> Vec<Ast> {
    let mut all = Vec::new();
    for l0 in 0..HOSTILE_LEAVES {
        for l1 in 0..HOSTILE_LEAVES {
            all.append(&mut enumerate_asts_with(1, &mut |_, pos| hostile_leaf(if pos == 0 { l0 } else { l1 })));
        }
    }
    for rot in 0..rotations {
        let mut two: Vec<Ast> = enumerate_asts_with(2, &mut |i, pos| hostile_leaf(i * 7 + pos * 5 + rot * 3 + (i / 11) * pos));
        // keep the two-operator trees only (the one-operator ones are covered exhaustively above)
        all.extend(two.drain(28.min(two.len())..));
    }
    all
}

struct HostileLeaves {
    asts: Vec<Ast>,
}

impl Phase for HostileLeaves {
    fn name(&self) -> String {
        "look-alike leaves (mantissa-e words, typographic operator characters in names, digit text) x all operators".into()
    }
    fn len(&self) -> u64 {
        self.asts.len() as u64 * 2
    }
    fn run(&mut self, idx: u64, r: &mut Rng, out: &mut Out) {
        let ast = self.asts[(idx / 2) as usize].clone();
        out.count("look-alike leaf trees");
        match idx % 2 {
            0 => check_ast(out, &ast, Parens::Minimal, None, false, "precedence"),
            _ => check_ast(out, &ast, Parens::Random, Some(r), true, "precedence"),
        }
    }
}

struct AstRandom {
    n: u64,
}

impl Phase for AstRandom {
    fn name(&self) -> String {
        "random-asts depth<=12".into()
    }
    fn len(&self) -> u64 {
        self.n
    }
    fn run(&mut self, _idx: u64, r: &mut Rng, out: &mut Out) {
        let depth = r.range(2, 12);
        let ast = {
            let vars = ["a", "b", "c", "x"];
            let funs = ["f", "g", "max"];
            let mut g = AstGen {
                r,
                vars: &vars,
                funs: &funs,
                allow_assign: true,
                allow_seq: true,
                distinct_names: false,
                counter: 0,
                max_nodes: 200,
                nodes: 0,
            };
            g.expr(depth)
        };
        let mode = match r.below(3) {
            0 => Parens::Minimal,
            1 => Parens::Full,
            _ => Parens::Random,
        };
        out.count(&format!("ast depth {}", depth));
        check_ast(out, &ast, mode, Some(r), true, "precedence");
    }
}

/// long chains of one construct (130-1500 operands / levels): grouping must not depend on length
struct LongChains {
    n: u64,
}

impl Phase for LongChains {
    fn name(&self) -> String {
        "long operator chains and deep prefix / assignment / call chains (130-1500)".into()
    }
    fn len(&self) -> u64 {
        self.n
    }
    fn run(&mut self, idx: u64, r: &mut Rng, out: &mut Out) {
        let n = r.range(130, 1500);
        let leaf = |i: usize| -> Ast {
            if i % 3 == 0 {
                Ast::Const(RV::Int((i % 7) as i64))
            } else {
                Ast::Read(["a", "b", "c"][i % 3].to_string())
            }
        };
        let ast = match idx % 6 {
            0 | 1 => {
                // left-associative chain of one binary operator (or of two of equal precedence)
                let op = *r.pick(&BINOPS);
                let mut a = leaf(0);
                for i in 1..n {
                    a = Ast::Bin(op, Box::new(a), Box::new(leaf(i)));
                }
                a
            },
            2 => {
                let mut a = leaf(0);
                for _ in 0..n {
                    a = Ast::Un(if r.chance(1, 2) { "neg" } else { "!" }, Box::new(a));
                }
                a
            },
            3 => {
                let mut a = leaf(0);
                for i in 0..n.min(900) {
                    a = Ast::Assign("=", format!("v{}", i % 5), Box::new(a));
                }
                a
            },
            4 => {
                let mut a = leaf(1);
                for i in 0..n.min(900) {
                    a = Ast::Call(["f", "g"][i % 2].to_string(), Box::new(a));
                }
                a
            },
            _ => {
                // right-nested through parentheses
                let op = *r.pick(&BINOPS);
                let mut a = leaf(0);
                for i in 1..n.min(700) {
                    a = Ast::Bin(op, Box::new(leaf(i)), Box::new(a));
                }
                a
            },
        };
        out.count("long chains");
        check_ast(out, &ast, Parens::Minimal, Some(r), idx % 2 == 0, "precedence");
    }
}

pub fn selfcheck() -> Result<String, String> {
    // README precedence facts through the reference parser
    let facts: [(&str, &str); 10] = [
        ("1 + 2 * 3", "(+ c:1i (* c:2i c:3i))"),
        ("1 - 2 - 3", "(- (- c:1i c:2i) c:3i)"),
        ("a = b = 3", "(= w:a (= w:b c:3i))"),
        ("- a ^ b", "(neg (^ r:a r:b))"),
        ("- a * b", "(* (neg r:a) r:b)"),
        ("f g x", "(f:f (f:g r:x))"),
        ("f ( a , b )", "(f:f (, r:a r:b))"),
        ("a , b ; c , d", "(; (, r:a r:b) (, r:c r:d))"),
        ("1 ; 2 ;", "(; c:1i c:2i E)"),
        ("a || b && c == d", "(|| r:a (&& r:b (== r:c r:d)))"),
    ];
    for (src, want) in facts {
        let l = lex(src).map_err(|e| format!("reference lexer rejects `{}`: {:?}", src, e))?;
        match classify(&l.toks) {
            (Class::Well, Some(a)) if a.sx() == want => {},
            (c, a) => return Err(format!("reference parser: `{}` gives {:?} {:?}, expected {}", src, c, a.map(|a| a.sx()), want)),
        }
    }
    for (src, ill) in [("1 2", true), ("+ 1 2", true), ("( 1", true), ("1 + 2 ( )", true), ("1 = 2", false), ("x ^ - y ^ z", false)] {
        let l = lex(src).map_err(|e| format!("{:?}", e))?;
        let c = classify(&l.toks).0;
        let ok = if ill { matches!(c, Class::Ill(_)) } else { matches!(c, Class::Unclaimed(_)) };
        if !ok {
            return Err(format!("reference parser: `{}` classified {:?}", src, c));
        }
    }
    Ok("reference parser reproduces 10 README trees and 6 ILL/UNCLAIMED classifications".into())
}

pub fn phases(cfg: &Cfg) -> Vec<Box<dyn Phase>> {
    let t = cfg.thorough;
    vec![
        Box::new(TokenSweep {
            label: "A16".into(),
            alphabet: gen::alphabet16(),
            maxlen: if t { 6 } else { 5 },
            want: Want::WellFormed,
            rule_prefix: "precedence",
            only_sequences: false,
            hook_every: if t { 64 } else { 16 },
        }),
        Box::new(TokenSweep {
            label: "A23".into(),
            alphabet: gen::alphabet23(),
            maxlen: if t { 5 } else { 4 },
            want: Want::WellFormed,
            rule_prefix: "precedence",
            only_sequences: false,
            hook_every: 0,
        }),
        Box::new(TokenSweep {
            label: "all-operators+words".into(),
            alphabet: gen::alphabet_all(),
            maxlen: if t { 4 } else { 3 },
            want: Want::WellFormed,
            rule_prefix: "precedence",
            only_sequences: false,
            hook_every: 0,
        }),
        Box::new(AstExhaustive {
            asts: enumerate_asts(3),
        }),
        Box::new(HostileLeaves {
            asts: hostile_leaf_asts(if t { 40 } else { 6 }),
        }),
        Box::new(LongChains {
            n: cfg.n(1_500, 60_000),
        }),
        Box::new(AstRandom {
            n: cfg.n(400_000, 6_000_000),
        }),
    ]
}

//! C13 — malformed expressions are rejected, never given a meaning.

use super::c02::TokenSweep;
use super::synt::{judge, Want};
use crate::fw::{Cfg, Out, Phase};
use crate::gen::{self, AstGen};
use crate::refmodel::lex::{render_spaced, Tok};
use crate::refmodel::parse::{classify, render_ast, Class, Parens};
use crate::rng::Rng;

/// random well-formed programs damaged by deleting an operand / operator, inserting a value, or
/// adding / removing a parenthesis
struct Mutations {
    n: u64,
}

impl Phase for Mutations {
    fn name(&self) -> String {
        "damaged-programs".into()
    }
    fn len(&self) -> u64 {
        self.n
    }
    fn run(&mut self, _idx: u64, r: &mut Rng, out: &mut Out) {
        let depth = r.range(1, 6);
        let ast = {
            let vars = ["a", "b", "x"];
            let funs = ["f", "t", "if", "if", "min"];
            let mut g = AstGen {
                r,
                vars: &vars,
                funs: &funs,
                allow_assign: true,
                allow_seq: true,
                distinct_names: false,
                counter: 0,
                max_nodes: 40,
                nodes: 0,
            };
            g.expr(depth)
        };
        let mut toks = render_ast(&ast, Parens::Minimal, Some(r), true);
        let alphabet = gen::alphabet_all();
        let k = r.range(1, 2);
        for _ in 0..k {
            if toks.is_empty() {
                break;
            }
            let pos = r.below(toks.len());
            match r.below(6) {
                0 | 1 => {
                    toks.remove(pos);
                },
                2 => toks.insert(pos, r.pick(&alphabet).clone()),
                3 => toks.insert(pos, Tok::Op(if r.chance(1, 2) { "(" } else { ")" })),
                4 => {
                    let t = toks[pos].clone();
                    toks.insert(pos, t);
                },
                _ => {
                    let q = r.below(toks.len());
                    toks.swap(pos, q);
                },
            }
        }
        if r.chance(1, 16) {
            // the program sits 60-140 sequence groups deep, with one closing parenthesis too many or too few
            let d = r.range(60, 140);
            let mut nested: Vec<Tok> = Vec::new();
            for k in 0..d {
                nested.push(Tok::Op("("));
                nested.push(Tok::Int(k as i64));
                nested.push(Tok::Op(if k % 2 == 0 { "," } else { ";" }));
            }
            nested.extend(toks.iter().cloned());
            let closing = if r.chance(1, 2) { d + 1 } else { d - 1 };
            for _ in 0..closing {
                nested.push(Tok::Op(")"));
            }
            toks = nested;
            out.count("damaged programs nested 60-140 groups deep with unbalanced parentheses");
        }
        let src = render_spaced(&toks);
        out.begin(|| src.clone());
        let class = classify(&toks).0;
        let v = judge(out, &toks, &src, Want::IllFormed, "malformed");
        let tight = gen::render_tight(&toks);
        if tight != src {
            judge(out, &toks, &tight, Want::IllFormed, "malformed");
        }
        if r.chance(1, 4) {
            if let Some(planned) = gen::render_with_plan(&toks, r, true) {
                judge(out, &toks, &planned, Want::IllFormed, "malformed");
            }
        }
        if let Class::Ill(why) = &class {
            out.nontrivial(&src);
            out.count(&format!("ILL reason: {}", why));
            out.sample(|| format!("`{}`  ILL({})  built: {}", src, why, v.tree.is_some()));
        }
    }
}

pub fn selfcheck() -> Result<String, String> {
    super::c02::selfcheck()
}

pub fn phases(cfg: &Cfg) -> Vec<Box<dyn Phase>> {
    let t = cfg.thorough;
    vec![
        Box::new(TokenSweep {
            label: "A16".into(),
            alphabet: gen::alphabet16(),
            maxlen: if t { 6 } else { 5 },
            want: Want::IllFormed,
            rule_prefix: "malformed",
            only_sequences: false,
            hook_every: if t { 64 } else { 16 },
        }),
        Box::new(TokenSweep {
            label: "A11".into(),
            alphabet: gen::alphabet11(),
            maxlen: if t { 7 } else { 6 },
            want: Want::IllFormed,
            rule_prefix: "malformed",
            only_sequences: false,
            hook_every: 0,
        }),
        Box::new(TokenSweep {
            label: "A23".into(),
            alphabet: gen::alphabet23(),
            maxlen: if t { 5 } else { 4 },
            want: Want::IllFormed,
            rule_prefix: "malformed",
            only_sequences: false,
            hook_every: 0,
        }),
        Box::new(TokenSweep {
            label: "all-operators+words".into(),
            alphabet: gen::alphabet_all(),
            maxlen: if t { 4 } else { 3 },
            want: Want::IllFormed,
            rule_prefix: "malformed",
            only_sequences: false,
            hook_every: 0,
        }),
        Box::new(Mutations {
            n: cfg.n(1_000_000, 10_000_000),
        }),
    ]
}

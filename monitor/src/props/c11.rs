//! C11 — read-only evaluation equals mutable evaluation and never mutates.

use super::c08::{base_model, corpus_exhaustive, random_model, random_program, typed_model, typed_program};
use super::exec::{self, Entry};
use crate::api::{self, Built, Got};
use crate::fw::{Cfg, Out, Phase};
use crate::observe::{self, ReadOnlyContext};
use crate::refmodel::errs::ErrClass;
use crate::refmodel::eval::{outcome_matches, Model, RErr};
use crate::refmodel::lex::render_spaced;
use crate::refmodel::parse::{render_ast, Ast, Parens};
use crate::refmodel::value::RV;
use crate::rng::Rng;
use evalexpr::{DefaultNumericTypes, EmptyContext, EmptyContextWithBuiltinFunctions};

pub fn check_program(out: &mut Out, ast: &Ast, model: &Model, r: &mut Rng) {
    let toks = render_ast(ast, Parens::Minimal, Some(r), true);
    let src = render_spaced(&toks);
    out.begin(|| format!("{}  with {}", src, model.show_vars()));
    let tree = match api::build(&src) {
        Built::Tree(t) => t,
        Built::Err(..) => {
            out.count("program does not precompile (left to C02/C05)");
            return;
        },
        Built::Panic(p) => {
            out.violation("panic", src.clone(), "Ok or Err".into(), p);
            return;
        },
    };
    let r_mut = exec::run_ref(ast, model, true);
    let r_imm = exec::run_ref(ast, model, false);
    if matches!(r_mut.result, Err(RErr::Unclaimed(_))) || matches!(r_imm.result, Err(RErr::Unclaimed(_))) {
        out.count("programs the reference leaves unclaimed (skipped)");
        return;
    }
    let i_mut = exec::run_impl(&src, Some(&tree), model, Entry::TreeMut, true);
    let i_imm = exec::run_impl(&src, Some(&tree), model, Entry::TreeImm, true);
    let i_imm_s = exec::run_impl(&src, None, model, Entry::StrImm, false);
    let i_mut_s = exec::run_impl(&src, None, model, Entry::StrMut, false);
    out.evals(4);
    if !i_mut_s.got.same(&i_mut.got) || !api::same_vars(&i_mut_s.vars_after, &i_mut.vars_after) {
        out.violation(
            "readonly/mutable-string-entry-differs-from-mutable-tree-entry",
            format!("{}   [initial context {}]", src, model.show_vars()),
            format!("{} ; final {}", i_mut.got.show(), api::show_vars(&i_mut.vars_after)),
            format!("{} ; final {}", i_mut_s.got.show(), api::show_vars(&i_mut_s.vars_after)),
        );
    }
    let describe = || format!("{}   [initial context {}; builtins {}]", src, model.show_vars(), if model.builtins_off { "off" } else { "on" });
    out.nontrivial(&format!("{}|{}", src, model.show_vars()));
    out.count(if r_mut.run.assign_reached { "programs reaching an assignment" } else { "programs without a reached assignment" });
    for (which, run) in [("precompiled", &i_imm), ("string", &i_imm_s)] {
        if run.got.is_panic() {
            out.violation("panic", describe(), "Ok or Err".into(), run.got.show());
            continue;
        }
        // (a) against the model of the immutable run
        if !outcome_matches(&r_imm.result, &run.got.lifted().unwrap()) {
            out.violation(
                "readonly/result-vs-reference",
                format!("{} ({} immutable entry)", describe(), which),
                exec::show_ref_result(&r_imm.result),
                run.got.show(),
            );
        }
        // (b) implementation against implementation, projected
        if r_mut.run.assign_reached {
            if !matches!(&run.got, Got::Err(ErrClass::NotMutable, _)) {
                out.violation(
                    "readonly/assignment-not-rejected",
                    format!("{} ({} immutable entry)", describe(), which),
                    "ContextNotMutable (an assignment is applied before the evaluation finishes or fails)".into(),
                    run.got.show(),
                );
            }
        } else if !run.got.same(&i_mut.got) {
            out.violation(
                "readonly/differs-from-mutable",
                format!("{} ({} immutable entry)", describe(), which),
                format!("exactly the mutable result {}", i_mut.got.show()),
                run.got.show(),
            );
        }
        // (c) the context is observably unchanged and never asked to store anything
        if !api::same_vars(&run.vars_after, &model.vars) || run.sets_attempted > 0 {
            out.violation(
                "readonly/context-mutated",
                format!("{} ({} immutable entry)", describe(), which),
                format!("context unchanged {} and no set_value call", model.show_vars()),
                format!("{} after {} set_value call(s)", api::show_vars(&run.vars_after), run.sets_attempted),
            );
        }
    }
    // one and the same context object: first the read-only evaluation, then the mutable one (whatever the read-only
    // walk leaves behind in the context or the tree must not show in what follows), then read-only again
    {
        let log = observe::new_log();
        let mut c = api::ctx_from_model(model, &log);
        let first = api::eval_tree(&tree, &c);
        let second = api::eval_tree_mut(&tree, &mut c);
        let after = api::ctx_vars(&c);
        out.evals(2);
        let ok_first = first.same(&i_imm.got);
        let ok_second = second.lifted().map_or(false, |l| outcome_matches(&r_mut.result, &l)) && api::same_vars(&r_mut.after.vars, &after);
        if !ok_first || !ok_second {
            out.violation(
                "readonly/then-mutable-on-the-same-context",
                describe(),
                format!("read-only {} ; then mutable {} ; final {}", i_imm.got.show(), exec::show_ref_result(&r_mut.result), r_mut.after.show_vars()),
                format!("read-only {} ; then mutable {} ; final {}", first.show(), second.show(), api::show_vars(&after)),
            );
        }
    }
    // a program without a reached assignment leaves the mutable context unchanged as well
    if !r_mut.run.assign_reached && !api::same_vars(&i_mut.vars_after, &model.vars) {
        out.violation(
            "readonly/mutable-run-mutated-without-assignment",
            describe(),
            model.show_vars(),
            api::show_vars(&i_mut.vars_after),
        );
    }
    // (d) H2: the immutable schedule is a prefix of the mutable schedule
    if !i_imm.trace.is_empty() && !i_mut.trace.is_empty() {
        let prefix = i_imm.trace.len() <= i_mut.trace.len()
            && i_imm.trace.iter().zip(&i_mut.trace).all(|(a, b)| a.kind == b.kind && a.node == b.node);
        let flags = i_imm.trace.iter().all(|e| !e.mutable) && i_mut.trace.iter().all(|e| e.mutable);
        out.count_n("H2 evaluation events", (i_imm.trace.len() + i_mut.trace.len()) as u64);
        if !prefix || !flags {
            out.violation(
                "readonly/schedule",
                describe(),
                "the immutable schedule is the prefix of the mutable one up to the first assignment, each through its own path".into(),
                format!("immutable trace {} events, mutable {} events, prefix={}, path flags ok={}", i_imm.trace.len(), i_mut.trace.len(), prefix, flags),
            );
        }
        exec::check_schedule(out, "readonly", &src, &tree, &i_imm.trace, matches!(i_imm.got, Got::Val(_)), false, Some(r_imm.run.applied));
    } else {
        out.count("H2: hook silent");
    }
    out.sample(|| format!("`{}` from {}: immutable {} / mutable {}", src, model.show_vars(), i_imm.got.show(), i_mut.got.show()));

    // contexts without variable storage
    // (1) a user context with the default set_value, through the mutable entry points
    {
        let mut m2 = model.clone();
        m2.set_not_mutable = true;
        let rr = exec::run_ref(ast, &m2, true);
        if !matches!(rr.result, Err(RErr::Unclaimed(_))) {
            let log = observe::new_log();
            let mut roc = ReadOnlyContext {
                inner: api::ctx_from_model(model, &log),
            };
            let got = api::eval_tree_mut(&tree, &mut roc);
            out.eval();
            out.count("default-set_value context runs");
            let ok = match got.lifted() {
                Some(l) => outcome_matches(&rr.result, &l),
                None => false,
            };
            let unchanged = api::same_vars(&api::ctx_vars(&roc.inner), &model.vars);
            if !ok || !unchanged {
                out.violation(
                    "readonly/default-set_value-context",
                    describe(),
                    format!("{} and context unchanged", exec::show_ref_result(&rr.result)),
                    format!("{} ; context {}", got.show(), api::show_vars(&api::ctx_vars(&roc.inner))),
                );
            }
        }
    }
    // (2) the two empty contexts, immutable entry
    for builtins in [false, true] {
        let mut m3 = Model::new();
        m3.builtins_off = !builtins;
        let rr = exec::run_ref(ast, &m3, false);
        if matches!(rr.result, Err(RErr::Unclaimed(_))) {
            continue;
        }
        let got = if builtins {
            api::eval_tree(&tree, &EmptyContextWithBuiltinFunctions::<DefaultNumericTypes>::default())
        } else {
            api::eval_tree(&tree, &EmptyContext::<DefaultNumericTypes>::default())
        };
        out.eval();
        out.count("empty-context runs");
        let ok = match got.lifted() {
            Some(l) => outcome_matches(&rr.result, &l),
            None => false,
        };
        if !ok {
            out.violation(
                "readonly/empty-context",
                format!("{}   [{}]", src, if builtins { "EmptyContextWithBuiltinFunctions" } else { "EmptyContext" }),
                exec::show_ref_result(&rr.result),
                got.show(),
            );
        }
    }
    // the tree, already evaluated through both paths, is edited through its mutable iterators (functions and
    // variables renamed): both paths must follow the edit, like a tree built from the edited program
    if r.chance(1, 3) {
        let fmap = |n: &str| -> String {
            match n {
                "min" => "max",
                "max" => "min",
                "len" => "typeof",
                "typeof" => "len",
                "t" => "id",
                "id" => "t",
                "b" => "s",
                "s" => "b",
                "math::floor" => "math::ceil",
                "math::ceil" => "math::floor",
                other => other,
            }
            .to_string()
        };
        let vmap = |n: &str| -> String {
            match n {
                "x" => "y",
                "y" => "x",
                "x0" => "x1",
                "x1" => "x0",
                other => other,
            }
            .to_string()
        };
        fn rename(a: &Ast, f: &dyn Fn(&str) -> String, v: &dyn Fn(&str) -> String) -> Ast {
            match a {
                Ast::Read(n) => Ast::Read(v(n)),
                Ast::Assign(o, t, x) => Ast::Assign(o, v(t), Box::new(rename(x, f, v))),
                Ast::Call(n, x) => Ast::Call(f(n), Box::new(rename(x, f, v))),
                Ast::Un(o, x) => Ast::Un(o, Box::new(rename(x, f, v))),
                Ast::Group(x) => Ast::Group(Box::new(rename(x, f, v))),
                Ast::Bin(o, l, rr) => Ast::Bin(o, Box::new(rename(l, f, v)), Box::new(rename(rr, f, v))),
                Ast::Tuple(xs) => Ast::Tuple(xs.iter().map(|x| rename(x, f, v)).collect()),
                Ast::Chain(xs) => Ast::Chain(xs.iter().map(|x| rename(x, f, v)).collect()),
                other => other.clone(),
            }
        }
        let ast2 = rename(ast, &fmap, &vmap);
        let mut tree2 = tree;
        for n in tree2.iter_function_identifiers_mut() {
            *n = fmap(n);
        }
        for n in tree2.iter_variable_identifiers_mut() {
            *n = vmap(n);
        }
        let src2 = render_spaced(&render_ast(&ast2, Parens::Minimal, None, true));
        let r2_mut = exec::run_ref(&ast2, model, true);
        let r2_imm = exec::run_ref(&ast2, model, false);
        if !matches!(r2_mut.result, Err(RErr::Unclaimed(_))) && !matches!(r2_imm.result, Err(RErr::Unclaimed(_))) {
            let j_imm = exec::run_impl(&src2, Some(&tree2), model, Entry::TreeImm, false);
            let j_mut = exec::run_impl(&src2, Some(&tree2), model, Entry::TreeMut, false);
            out.evals(2);
            out.count("evaluated trees renamed through the mutable iterators");
            let ok_imm = j_imm.got.lifted().map_or(false, |l| outcome_matches(&r2_imm.result, &l));
            let ok_mut = j_mut.got.lifted().map_or(false, |l| outcome_matches(&r2_mut.result, &l));
            let agree = r2_mut.run.assign_reached || j_imm.got.same(&j_mut.got);
            if !ok_imm || !ok_mut || !agree {
                out.violation(
                    "readonly/after-renaming-an-evaluated-tree",
                    format!("{}   renamed through iter_function_identifiers_mut / iter_variable_identifiers_mut to   {}   [initial context {}]", src, src2, model.show_vars()),
                    format!("read-only {} / mutable {}", exec::show_ref_result(&r2_imm.result), exec::show_ref_result(&r2_mut.result)),
                    format!("read-only {} / mutable {}", j_imm.got.show(), j_mut.got.show()),
                );
            }
        }
    }

}

struct Exhaustive {
    corpus: Vec<Ast>,
}

impl Phase for Exhaustive {
    fn name(&self) -> String {
        "all-programs<=3-operators with effect leaves".into()
    }
    fn len(&self) -> u64 {
        self.corpus.len() as u64
    }
    fn exhaustive(&self) -> bool {
        true
    }
    fn run(&mut self, idx: u64, r: &mut Rng, out: &mut Out) {
        let ast = self.corpus[idx as usize].clone();
        let mut m = base_model();
        m.vars.insert("x".into(), RV::Int(5));
        if idx % 2 == 1 {
            m.vars.insert("y".into(), RV::Float(0.5));
        }
        check_program(out, &ast, &m, r);
    }
}

struct Random {
    n: u64,
}

impl Phase for Random {
    fn name(&self) -> String {
        "random-programs depth<=10".into()
    }
    fn len(&self) -> u64 {
        self.n
    }
    fn run(&mut self, idx: u64, r: &mut Rng, out: &mut Out) {
        if idx % 40 == 7 {
            // deep trees (130-600 levels) and sequences of exact sizes 2..=70
            use crate::refmodel::parse::Ast;
            let c = |k: i64| Ast::Call("t".into(), Box::new(Ast::Const(RV::Int(k))));
            let a = if r.chance(1, 2) {
                let depth = r.range(130, 330);
                let mut a = c(0);
                let kind = r.below(3);
                for k in 1..=depth as i64 {
                    a = match kind {
                        0 => Ast::Bin("+", Box::new(c(k)), Box::new(a)),
                        1 => Ast::Call("id".into(), Box::new(a)),
                        _ => Ast::Un("neg", Box::new(a)),
                    };
                }
                a
            } else {
                let n = if r.chance(1, 2) { r.range(2, 70) } else { (*r.pick(&crate::gen::BOUNDARY_SIZES[..28])).max(2) };
                let elems: Vec<Ast> = (1..=n as i64).map(c).collect();
                match r.below(3) {
                    0 => Ast::Tuple(elems),
                    1 => Ast::Chain(elems),
                    _ => Ast::Call("id".into(), Box::new(Ast::Tuple(elems))),
                }
            };
            out.count("deep / sized programs");
            check_program(out, &a, &base_model(), r);
            return;
        }
        if r.chance(1, 2) {
            let ast = typed_program(r, 8);
            check_program(out, &ast, &typed_model(), r);
        } else {
            let ast = random_program(r, 10);
            let m = random_model(r);
            check_program(out, &ast, &m, r);
        }
    }
}

/// Arbitrary token sequences (also ones the reference does not claim, e.g. assignments to non-identifiers): the
/// projection is decided by the H2 hook instead of the reference — if the mutable run reaches the application of an
/// assignment operator, the read-only run must fail with ContextNotMutable, otherwise both must agree exactly.
struct AnyTokens {
    alphabet: Vec<crate::refmodel::lex::Tok>,
    maxlen: u32,
    random: u64,
}

fn is_assignment_op(o: &evalexpr::Operator) -> bool {
    use evalexpr::Operator::*;
    matches!(o, Assign | AddAssign | SubAssign | MulAssign | DivAssign | ModAssign | ExpAssign | AndAssign | OrAssign)
}

fn index_nodes<'a>(t: &'a evalexpr::Node, map: &mut std::collections::BTreeMap<usize, &'a evalexpr::Node>) {
    map.insert(t as *const evalexpr::Node as usize, t);
    for c in t.children() {
        index_nodes(c, map);
    }
}

impl Phase for AnyTokens {
    fn name(&self) -> String {
        format!("any token sequence len<={} + damaged programs: read-only vs mutable, projection by the H2 hook", self.maxlen)
    }
    fn len(&self) -> u64 {
        crate::gen::seq_space(self.alphabet.len() as u64, self.maxlen) + self.random
    }
    fn run(&mut self, idx: u64, r: &mut Rng, out: &mut Out) {
        let space = crate::gen::seq_space(self.alphabet.len() as u64, self.maxlen);
        let toks: Vec<crate::refmodel::lex::Tok> = if idx < space {
            crate::gen::decode_seq(idx, self.alphabet.len() as u64, self.maxlen).iter().map(|i| self.alphabet[*i].clone()).collect()
        } else {
            let ast = random_program(r, 4);
            let mut t = render_ast(&ast, Parens::Minimal, Some(r), true);
            let all = crate::gen::alphabet_all();
            for _ in 0..r.range(1, 2) {
                if t.is_empty() {
                    break;
                }
                let p = r.below(t.len());
                match r.below(3) {
                    0 => {
                        t.remove(p);
                    },
                    1 => t.insert(p, r.pick(&all).clone()),
                    _ => t[p] = r.pick(&all).clone(),
                }
            }
            t
        };
        let mut src = render_spaced(&toks);
        if idx >= space && r.chance(1, 5) {
            // a sub-expression that fails at run time next to one that lacks an operand: whichever the evaluation
            // reaches first decides, on both paths alike
            let failing = *r.pick(&["fail ( 1 )", "nosuch", "1 / 0", "u7", "nofn ( 2 )", "t ( 1 ) + true", "x = fail ( 3 )"]);
            let lacking = *r.pick(&["( 2 * )", "( - )", "( ! )", "( 3 + )", "( a < )", "( 4 ^ )", "t ( 5 % )", "( true && )", "( , ) + ( / 2 )"]);
            let sep = *r.pick(&["+", ";", ",", "*", "==", "&&"]);
            src = if r.chance(2, 3) { format!("{} {} {}", failing, sep, lacking) } else { format!("{} {} {}", lacking, sep, failing) };
            out.count("run-time failure next to a missing operand");
        }
        out.begin(|| src.clone());
        let tree = match api::build(&src) {
            Built::Tree(t) => t,
            Built::Err(..) => return,
            Built::Panic(p) => {
                out.violation("panic", src.clone(), "Ok or Err".into(), p);
                return;
            },
        };
        let mut model = base_model();
        model.vars.insert("a".into(), RV::Int(2));
        model.vars.insert("x".into(), RV::Int(5));
        let i_mut = exec::run_impl(&src, Some(&tree), &model, Entry::TreeMut, true);
        let i_imm = exec::run_impl(&src, Some(&tree), &model, Entry::TreeImm, true);
        out.evals(2);
        if i_mut.trace.is_empty() && i_imm.trace.is_empty() {
            out.count("H2: hook silent (projection not decidable here)");
            return;
        }
        // (a mutable run without a single event while the read-only run has some evaluated nothing, so it applied
        // no assignment either: the results must agree)
        let mut nodes = std::collections::BTreeMap::new();
        index_nodes(&tree, &mut nodes);
        let reached = i_mut
            .trace
            .iter()
            .any(|e| e.kind == observe::EvalEventKind::Apply && nodes.get(&e.node).map_or(false, |n| is_assignment_op(n.operator())));
        out.nontrivial(&src);
        out.count(if reached { "sequences reaching an assignment" } else { "sequences without a reached assignment" });
        let ok = if reached { matches!(&i_imm.got, Got::Err(ErrClass::NotMutable, _)) } else { i_imm.got.same(&i_mut.got) };
        if !ok {
            out.violation(
                "readonly/any-sequence",
                format!("{}   [context {}]", src, model.show_vars()),
                if reached { "ContextNotMutable (the mutable run applies an assignment operator)".to_string() } else { format!("exactly the mutable result {}", i_mut.got.show()) },
                i_imm.got.show(),
            );
        }
        if !api::same_vars(&i_imm.vars_after, &model.vars) || i_imm.sets_attempted > 0 {
            out.violation("readonly/context-mutated", src.clone(), model.show_vars(), api::show_vars(&i_imm.vars_after));
        }
        out.sample(|| format!("`{}`: assignment reached = {}, read-only {} / mutable {}", src, reached, i_imm.got.show(), i_mut.got.show()));
    }
}

/// the typed and string-level views of the read-only and the mutable evaluator (C12's checker on C11's behalf: a typed
/// read-only entry point that disagrees with the mutable one breaks this property too)
struct TypedViews {
    n: u64,
}

impl Phase for TypedViews {
    fn name(&self) -> String {
        "typed / string-level read-only entry points vs their mutable counterparts".into()
    }
    fn len(&self) -> u64 {
        self.n
    }
    fn run(&mut self, _idx: u64, r: &mut Rng, out: &mut Out) {
        let src = match r.below(4) {
            0 => {
                let body = match r.below(5) {
                    0 => format!("{}", r.int_bitlen().unsigned_abs()),
                    1 => "9223372036854775808".to_string(),
                    2 => format!("0x{:x}", r.next() >> r.below(64)),
                    3 => format!("{}.{}", r.below(100), r.below(100)),
                    _ => format!("{}", r.below(1000)),
                };
                format!("{}{}{}{}", r.pick(&["", " ", "\n"]), r.pick(&["", "-", "+", "- ", "!"]), body, r.pick(&["", " ", ";"]))
            },
            1 => r
                .pick(&["\u{feff}x + 1", "\u{feff}1", "\u{feff}", "\u{200b}x", "bitnot(1.5)", "shl(xf, 2)", "x / 0", "xs + 1", "len(x)", "x", "xf", "xb", "xs", "(x, xf)", "()", "x = 1 / 0", "y += nosuch", "-xs", "math::sqrt(xb)", "xn == xn", "xn != xn", "xt == xt", "xt != xt", "xe", "xe == xe", "xe == ()", "xn", "xt", "(xn, 1) == (xn, 1)", "xf == xf", "xs == xs", "xn >= xn", "x == x", "xe;", "xe; xe"])
                .to_string(),
            _ => render_spaced(&render_ast(&typed_program(r, 5), Parens::Minimal, Some(r), true)),
        };
        let model = typed_model();
        let log = observe::new_log();
        let c0 = api::ctx_from_model(&model, &log);
        super::c12::check_pair(out, &src, &c0, format!("context {}", model.show_vars()));
    }
}

pub fn selfcheck() -> Result<String, String> {
    super::c08::selfcheck()
}

pub fn phases(cfg: &Cfg) -> Vec<Box<dyn Phase>> {
    vec![
        Box::new(Exhaustive {
            corpus: corpus_exhaustive(),
        }),
        Box::new(Random {
            n: cfg.n(120_000, 2_500_000),
        }),
        Box::new(AnyTokens {
            alphabet: crate::gen::alphabet16(),
            maxlen: if cfg.thorough { 5 } else { 4 },
            random: cfg.n(60_000, 1_500_000),
        }),
        Box::new(TypedViews {
            n: cfg.n(20_000, 600_000),
        }),
    ]
}

//! C07 — whitespace and comments never change meaning (metamorphic: two separator plans, one token sequence).

use super::c08::random_program;
use crate::api::{self, Built};
use crate::fw::{Cfg, Out, Phase};
use crate::gen;
use crate::refmodel::lex::{lex, render_spaced, Tok};
use crate::refmodel::parse::{node_sx, render_ast, Parens};
use crate::rng::Rng;

fn show_built(b: &Built) -> String {
    match b {
        Built::Tree(t) => format!("Ok {}", node_sx(t)),
        Built::Err(_, d) => format!("Err({})", d),
        Built::Panic(p) => format!("PANIC {}", p),
    }
}

fn same_built(a: &Built, b: &Built) -> bool {
    match (a, b) {
        (Built::Tree(x), Built::Tree(y)) => format!("{:?}", x) == format!("{:?}", y),
        (Built::Err(_, x), Built::Err(_, y)) => x == y,
        _ => false,
    }
}

/// canonical single-space rendering vs `k` random separator plans of the same token sequence
pub fn check_tokens(out: &mut Out, toks: &[Tok], r: &mut Rng, k: usize) {
    let canon = render_spaced(toks);
    out.begin(|| canon.clone());
    // the canonical form must itself denote this token sequence for the reference lexer
    match lex(&canon) {
        Ok(l) if l.toks.len() == toks.len() && l.toks.iter().zip(toks).all(|(a, b)| a == b) => {},
        _ => {
            out.count("sequences whose canonical rendering does not re-lex (skipped)");
            return;
        },
    }
    let base = api::build(&canon);
    out.eval();
    if let Built::Panic(p) = &base {
        out.violation("panic", canon.clone(), "Ok or Err".into(), p.clone());
        return;
    }
    out.nontrivial(&canon);
    out.count(if matches!(base, Built::Tree(_)) { "sequences that precompile" } else { "sequences that are rejected" });
    // anchor: the canonical rendering of a well-formed sequence means what the reference parser says (so that a
    // defect that changes *every* rendering in the same way does not hide behind the metamorphic comparison)
    if let (crate::refmodel::parse::Class::Well, Some(ast)) = crate::refmodel::parse::classify(toks) {
        if !toks.iter().any(|t| matches!(t, Tok::Ident(w) if crate::refmodel::lex::classify_word(w) == crate::refmodel::lex::WordClass::Unclaimed)) {
            let ok = match &base {
                Built::Tree(t) => crate::refmodel::parse::from_node(t).map_or(false, |a| a.same(&ast)),
                _ => false,
            };
            if !ok {
                out.violation("separators/anchor", format!("{:?}", canon), ast.sx(), show_built(&base));
                return;
            }
        }
    }
    let mut variants = Vec::new();
    variants.push(gen::render_tight(toks));
    for _ in 0..k {
        match gen::render_with_plan(toks, r, true) {
            Some(s) => variants.push(s),
            None => out.count("separator plans discarded (would fuse tokens)"),
        }
    }
    for v in variants {
        if v == canon {
            continue;
        }
        let got = api::build(&v);
        out.eval();
        out.count("separator plans compared");
        if !same_built(&base, &got) {
            out.violation(
                "separators/different-outcome",
                format!("{:?}  vs canonical  {:?}", v, canon),
                show_built(&base),
                show_built(&got),
            );
            return;
        }
        out.sample(|| format!("{:?} == {:?} : {}", v, canon, crate::fw::clip(&show_built(&base), 120)));
    }
}

struct Sweep {
    label: &'static str,
    alphabet: Vec<Tok>,
    maxlen: u32,
    plans: usize,
}

impl Phase for Sweep {
    fn name(&self) -> String {
        format!("token-sequences {} len<={} x {} separator plans", self.label, self.maxlen, self.plans)
    }
    fn len(&self) -> u64 {
        gen::seq_space(self.alphabet.len() as u64, self.maxlen)
    }
    fn exhaustive(&self) -> bool {
        true
    }
    fn run(&mut self, idx: u64, r: &mut Rng, out: &mut Out) {
        let seq = gen::decode_seq(idx, self.alphabet.len() as u64, self.maxlen);
        let toks: Vec<Tok> = seq.iter().map(|i| self.alphabet[*i].clone()).collect();
        check_tokens(out, &toks, r, self.plans);
    }
}

struct Programs {
    n: u64,
    plans: usize,
}

impl Phase for Programs {
    fn name(&self) -> String {
        "random programs and token soup x separator plans".into()
    }
    fn len(&self) -> u64 {
        self.n
    }
    fn run(&mut self, _idx: u64, r: &mut Rng, out: &mut Out) {
        let toks: Vec<Tok> = if r.chance(2, 3) {
            let ast = random_program(r, 6);
            render_ast(&ast, if r.chance(1, 2) { Parens::Minimal } else { Parens::Random }, Some(r), true)
        } else {
            let mut alpha = gen::alphabet_all();
            alpha.extend(["×", "÷", "−", "∗", "⁄"].iter().map(|w| gen::tok(w)));
            let n = r.range(1, 10);
            (0..n).map(|_| r.pick(&alpha).clone()).collect()
        };
        check_tokens(out, &toks, r, self.plans);
    }
}

/// one gap of a short program blown up to a boundary size (blanks, newlines, one long comment, many short comments):
/// however much of it there is, whitespace means nothing
struct HugeGaps {
    n: u64,
}

const GAP_SIZES: [usize; 17] = [15, 16, 17, 255, 256, 257, 1023, 1024, 1025, 4095, 4096, 4097, 65534, 65535, 65536, 70000, 140000];

impl Phase for HugeGaps {
    fn name(&self) -> String {
        "one separator of boundary size (16 … 140,000 characters)".into()
    }
    fn len(&self) -> u64 {
        self.n
    }
    fn run(&mut self, idx: u64, r: &mut Rng, out: &mut Out) {
        let toks: Vec<Tok> = {
            let ast = random_program(r, 3);
            render_ast(&ast, Parens::Minimal, Some(r), true)
        };
        if toks.len() < 2 {
            return;
        }
        let canon = render_spaced(&toks);
        out.begin(|| format!("{} with one huge gap", canon));
        let base = api::build(&canon);
        out.eval();
        let size = GAP_SIZES[(idx as usize) % GAP_SIZES.len()];
        let gap: String = match r.below(5) {
            0 => " ".repeat(size),
            1 => "\n".repeat(size),
            // (comments are set off by one blank on each side: glued to a `/` or `*` token they would be other tokens)
            2 => format!(" /*{}*/ ", "c".repeat(size.saturating_sub(6))),
            3 => format!(" {} ", "/**/".repeat(size / 4 + 1)),
            _ => format!(" //{}\n", "é".repeat(size / 2)),
        };
        // before the first token, after the last one, or between two tokens
        let pos = r.below(toks.len() + 1);
        let mut s = String::new();
        for (i, t) in toks.iter().enumerate() {
            if i == pos {
                s.push_str(&gap);
            } else if i > 0 {
                s.push(' ');
            }
            s.push_str(&t.text());
        }
        if pos == toks.len() {
            s.push_str(&gap);
        }
        let got = api::build(&s);
        out.eval();
        out.nontrivial(&format!("{}|{}|{}", canon, size, pos));
        out.count("huge separators compared");
        if !same_built(&base, &got) {
            out.violation(
                "separators/different-outcome",
                format!("{:?} with a separator of {} characters ({:?}…) before token #{}  vs canonical  {:?}", canon, gap.chars().count(), gap.chars().take(6).collect::<String>(), pos, canon),
                show_built(&base),
                show_built(&got),
            );
        }
        out.sample(|| format!("a separator of {} characters before token #{} of {:?} changes nothing", gap.chars().count(), pos, canon));
    }
}

/// an unterminated `/*` outside a string is an error; comment markers inside string literals are plain text
struct CommentRules {
    n: u64,
}

impl Phase for CommentRules {
    fn name(&self) -> String {
        "unterminated comments / comment markers inside strings".into()
    }
    fn len(&self) -> u64 {
        self.n
    }
    fn run(&mut self, _idx: u64, r: &mut Rng, out: &mut Out) {
        let ast = random_program(r, 4);
        let toks = render_ast(&ast, Parens::Minimal, Some(r), true);
        if r.chance(1, 2) {
            // (a) cut the program at a token boundary and open a comment that never closes
            let cut = r.below(toks.len() + 1);
            let mut s = render_spaced(&toks[..cut]);
            // (a space first: directly after a `/` token the `/*` would read as `//` + `*`)
            s.push_str(if r.chance(1, 2) { " /* never closed " } else { " /*" });
            if r.chance(1, 2) {
                s.push_str(&render_spaced(&toks[cut..]));
            }
            // make sure no `*/` sneaks in through the tail
            if s[s.find("/*").unwrap() + 2..].contains("*/") {
                return;
            }
            out.begin(|| s.clone());
            let got = api::build(&s);
            out.eval();
            out.nontrivial(&s);
            out.count("unterminated block comments");
            match got {
                Built::Err(..) => {},
                other => out.violation("comments/unterminated-accepted", format!("{:?}", s), "an error".into(), show_built(&other)),
            }
        } else {
            // (b) a string literal containing comment markers behaves like the same literal with letters instead
            let marker = *r.pick(&["/*", "*/", "//", "/* x */", "// y", "/**/", "a /* b", "*/ c /*"]);
            let plain: String = marker.chars().map(|c| if c == '/' { 'p' } else if c == '*' { 'q' } else { c }).collect();
            // replace one literal of the program by the string literal (or append it as a further tuple element)
            let lits: Vec<usize> = toks.iter().enumerate().filter(|(_, t)| t.is_literal()).map(|(i, _)| i).collect();
            let pos = if lits.is_empty() { None } else { Some(lits[r.below(lits.len())]) };
            let mk = |text: &str| -> String {
                let mut t: Vec<Tok> = toks.clone();
                let lit = Tok::Str(text.to_string());
                match pos {
                    Some(p) => t[p] = lit,
                    None => {
                        t.push(Tok::Op(","));
                        t.push(lit);
                    },
                }
                gen::render_tight(&t)
            };
            let (a, b) = (mk(marker), mk(&plain));
            out.begin(|| a.clone());
            let (ga, gb) = (api::build(&a), api::build(&b));
            out.evals(2);
            out.nontrivial(&a);
            out.count("comment markers inside string literals");
            let same = match (&ga, &gb) {
                (Built::Tree(x), Built::Tree(y)) => {
                    format!("{:?}", x).replace(&format!("{:?}", marker), "S") == format!("{:?}", y).replace(&format!("{:?}", plain), "S")
                },
                (Built::Err(_, x), Built::Err(_, y)) => x == y,
                _ => false,
            };
            if !same {
                out.violation(
                    "comments/marker-inside-string",
                    format!("{:?}  vs  {:?}", a, b),
                    format!("same tree up to the literal: {}", show_built(&gb)),
                    show_built(&ga),
                );
            }
        }
    }
}

pub fn selfcheck() -> Result<String, String> {
    // the reference lexer on the separator facts the property names
    let n = |s: &str| lex(s).map(|l| l.toks.len()).unwrap_or(999);
    if n("a/**/b") != 2 || n("1/**/2") != 2 || n("=/**/=") != 2 || n("a//x\nb") != 2 || n("\"/*\"") != 1 || lex("1 /* x").is_ok() {
        return Err("reference lexer: comment separation facts".into());
    }
    if n("1e-3") != 1 || n("1e -3") != 3 || n("a\u{2003}b") != 2 || n("a\u{b}b") != 2 {
        return Err("reference lexer: exponent join / unicode whitespace".into());
    }
    Ok("reference lexer reproduces 10 separator facts".into())
}

pub fn phases(cfg: &Cfg) -> Vec<Box<dyn Phase>> {
    let t = cfg.thorough;
    vec![
        Box::new(Sweep {
            label: "A16",
            alphabet: gen::alphabet16(),
            maxlen: if t { 5 } else { 4 },
            plans: if t { 8 } else { 4 },
        }),
        Box::new(Sweep {
            label: "all-operators+words(39)",
            // plus words that are typographic variants of operator characters: words like any other
            alphabet: gen::alphabet_all().into_iter().chain(["×", "÷", "−", "∗", "⁄"].iter().map(|w| gen::tok(w))).collect(),
            maxlen: if t { 4 } else { 3 },
            plans: if t { 6 } else { 4 },
        }),
        Box::new(Programs {
            n: cfg.n(250_000, 4_000_000),
            plans: if t { 16 } else { 4 },
        }),
        Box::new(CommentRules {
            n: cfg.n(40_000, 1_000_000),
        }),
        Box::new(HugeGaps {
            n: cfg.n(340, 6_800),
        }),
    ]
}

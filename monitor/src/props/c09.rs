//! C09 — function resolution: call forms, shadowing and the builtin switch. The configuration matrix is finite and
//! enumerated completely.

use super::exec::{self, Entry};
use crate::api::{self, Built, Ctx, Got};
use crate::fw::{Cfg, Out, Phase};
use crate::observe::{self, FnModel, RecordingContext};
use crate::refmodel::builtins::BUILTINS;
use crate::refmodel::eval::{outcome_matches, Model, RErr};
use crate::refmodel::lex::lex;
use crate::refmodel::parse::{classify, Class};
use crate::refmodel::value::RV;
use crate::rng::Rng;
use evalexpr::{Context, ContextWithMutableVariables, DefaultNumericTypes, EmptyContext, EmptyContextWithBuiltinFunctions};

pub const OTHERS: [&str; 28] = [
    "math::", "len::", "::", "str::from::", "0xfeed_f00d", "0x_", "1_000",
    "foo", "math::nope", "str", "Typeof", "random", "str::regex_matches", "str::regex_replace",
    // a builtin under another namespace is not a builtin
    "math::floor", "math::round", "math::min", "math::len", "str::len", "sqrt", "trim", "math::math::sqrt", "::len",
    // non-ASCII and keyword-like names are names like any other
    "λ", "élan", "面积", "not", "and",
];
const KINDS: usize = 12;
const SWITCH: usize = 3;
const FORMS: usize = 22;
const USERS: usize = 5;

fn forms(n: &str) -> Vec<String> {
    vec![
        format!("{}(x)", n),
        format!("{} x", n),
        format!("{} 1", n),
        format!("{} \"s\"", n),
        format!("{}()", n),
        format!("{}(x, y)", n),
        format!("m {} x", n),
        n.to_string(),
        format!("{} + 1", n),
        format!("{} = 1; {}(1)", n, n),
        format!("{} true", n),
        format!("{} 2.5", n),
        format!("{}(true, x, y)", n),
        format!("{}(q = 5)", n),
        format!("{}\u{a0}x", n),
        format!("m\u{2003}{}\u{b}1", n),
        // a line break is a blank like any other
        format!("{}\nx", n),
        format!("{}\n(x)", n),
        format!("m {}\r\n x", n),
        // arguments no literal can denote: the tuple without elements (it is not the empty value), held by a variable
        format!("{}(e0)", n),
        format!("{} e0", n),
        format!("m {}(e0, e0)", n),
    ]
}

struct Matrix {
    names: Vec<&'static str>,
    /// one precompiled tree per call form, evaluated against every configuration this worker visits: state kept
    /// inside a tree (a resolved-callee cache, say) would leak from one context into the next
    trees: std::collections::HashMap<String, evalexpr::Node>,
}

impl Matrix {
    fn dims(&self) -> u64 {
        (self.names.len() * KINDS * SWITCH * USERS * 2 * FORMS) as u64
    }
}

impl Phase for Matrix {
    fn name(&self) -> String {
        "resolution-matrix names x context-kinds x switch x user-fn x variable x call-forms (x 4 entry points)".into()
    }
    fn len(&self) -> u64 {
        self.dims()
    }
    fn exhaustive(&self) -> bool {
        true
    }
    fn run(&mut self, idx: u64, _r: &mut Rng, out: &mut Out) {
        let mut i = idx as usize;
        let form = i % FORMS;
        i /= FORMS;
        let var = i % 2 == 1;
        i /= 2;
        // user function named n: absent, present (marker), present but failing
        let user_mode = i % USERS;
        let user = user_mode != 0;
        i /= USERS;
        let switch = i % SWITCH;
        i /= SWITCH;
        let kind = i % KINDS;
        i /= KINDS;
        let name = self.names[i];
        let off = switch == 1;
        let src = forms(name)[form].clone();
        let desc = format!(
            "{}   [context kind {} ({}), builtins {}, user function `{}` {}, variable `{}` {}]",
            src,
            kind,
            ["HashMapContext", "clone", "after clear_functions", "after clear", "clone, original modified afterwards", "RecordingContext", "fixed empty contexts", "functions defined while builtins were disabled, switch set afterwards", "after 256 x clear_functions", "after 65536 x clear_functions (256 for all but the first call form)", "clear_functions while a clone is alive", "every function defined twice (first as another function)"][kind],
            ["on", "off", "toggled twice (on)"][switch],
            name,
            ["absent", "present", "present but failing", "present but failing with FunctionIdentifierNotFound of another function", "present and calling a function of its own name in a context of its own"][user_mode],
            name,
            if var { "present" } else { "absent" }
        );
        out.begin(|| desc.clone());
        // the model of the configuration
        let mut m = Model::new();
        m.vars.insert("x".into(), RV::Int(4));
        m.vars.insert("y".into(), RV::Int(9));
        m.vars.insert("e0".into(), RV::Tuple(vec![]));
        if var {
            m.vars.insert(name.to_string(), RV::Int(77));
        }
        if user {
            let inner = if name == "typeof" { "len" } else { "typeof" };
            m.funs.insert(name.to_string(), match user_mode { 1 => FnModel::Marker, 2 => FnModel::Fail, 3 => FnModel::FailNotFound(inner), _ => FnModel::SameNameInner });
        }
        m.funs.insert("m".into(), FnModel::Marker);
        m.builtins_off = off;
        let ast = match lex(&src).ok().map(|l| classify(&l.toks)) {
            Some((Class::Well, Some(a))) => a,
            other => {
                out.inconclusive(format!("call form `{}` is not well-formed for the reference: {:?}", src, other.map(|o| o.0)));
                return;
            },
        };
        if kind == 6 {
            // the two fixed contexts: no variables, no user functions; builtins never / always
            for builtins in [false, true] {
                let mut fm = Model::new();
                fm.builtins_off = !builtins;
                let rr = exec::run_ref(&ast, &fm, false);
                if matches!(rr.result, Err(RErr::Unclaimed(_))) {
                    out.count("cells the reference leaves unclaimed (skipped)");
                    continue;
                }
                let got = if builtins {
                    api::eval_str(&src, &EmptyContextWithBuiltinFunctions::<DefaultNumericTypes>::default())
                } else {
                    api::eval_str(&src, &EmptyContext::<DefaultNumericTypes>::default())
                };
                out.eval();
                out.nontrivial(&format!("{}|fixed{}", src, builtins));
                let ok = got.lifted().map_or(false, |l| outcome_matches(&rr.result, &l));
                if !ok {
                    out.violation(
                        "resolution/fixed-context",
                        format!("{}   [{}]", src, if builtins { "EmptyContextWithBuiltinFunctions" } else { "EmptyContext" }),
                        exec::show_ref_result(&rr.result),
                        got.show(),
                    );
                }
            }
            return;
        }
        // build the real context the way the configuration says
        let log = observe::new_log();
        let mut c: Ctx = api::ctx_from_model(&m, &log);
        if switch == 2 {
            let _ = c.set_builtin_functions_disabled(true);
            let _ = c.set_builtin_functions_disabled(false);
        }
        let mut model = m.clone();
        let mut drop_later: Option<Ctx> = None;
        let c: Ctx = match kind {
            7 => {
                // the other order of construction: disable, define the functions, then set the switch
                let mut d = Ctx::new();
                let _ = d.set_builtin_functions_disabled(true);
                for (k, f) in &m.funs {
                    observe::register_fn(&mut d, k, f.clone(), &log);
                }
                for (k, v) in &m.vars {
                    let _ = d.set_value(k.clone(), v.to_value());
                }
                let _ = d.set_builtin_functions_disabled(off);
                d
            },
            1 => c.clone(),
            2 => {
                c.clear_functions();
                model.funs.clear();
                c
            },
            10 => {
                // what a clone holds is the clone's business: the original is cleared while the clone is alive
                let keep_alive = c.clone();
                c.clear_functions();
                model.funs.clear();
                let _ = std::hint::black_box(&keep_alive);
                drop_later = Some(keep_alive);
                c
            },
            11 => {
                // the last definition of a name is the one that counts
                let mut d = Ctx::new();
                for (k, _) in &m.funs {
                    observe::register_fn(&mut d, k, FnModel::Const(RV::Str("first definition".into()).to_value()), &log);
                }
                for (k, f) in &m.funs {
                    observe::register_fn(&mut d, k, f.clone(), &log);
                }
                for (k, v) in &m.vars {
                    let _ = d.set_value(k.clone(), v.to_value());
                }
                let _ = d.set_builtin_functions_disabled(off);
                d
            },
            8 | 9 => {
                // a long-lived context: cleared again and again (whatever counts the clears must not wrap around)
                let n = if kind == 9 && form == 0 { 65536 } else { 256 };
                for _ in 0..n {
                    c.clear_functions();
                }
                model.funs.clear();
                c
            },
            3 => {
                c.clear();
                model.funs.clear();
                model.vars.clear();
                c
            },
            4 => {
                let cl = c.clone();
                c.clear();
                let _ = c.set_builtin_functions_disabled(!off);
                let _ = c.set_value("x".into(), RV::Str("changed".into()).to_value());
                cl
            },
            _ => c,
        };
        let tree = match self.trees.remove(&src) {
            Some(t) => t,
            None => match api::build(&src) {
                Built::Tree(t) => t,
                _ => {
                    out.violation("resolution/precompile", src.clone(), "precompiles".into(), "build_operator_tree failed".into());
                    return;
                },
            },
        };
        for entry in [Entry::StrImm, Entry::StrMut, Entry::TreeImm, Entry::TreeMut] {
            let rr = exec::run_ref(&ast, &model, entry.mutable());
            if matches!(rr.result, Err(RErr::Unclaimed(_))) {
                out.count("cells the reference leaves unclaimed (skipped)");
                continue;
            }
            let (got, effects): (Got, Vec<crate::refmodel::eval::REvent>) = if kind == 5 {
                // through a user-written context: the recorded calls identify the callee
                let _ = observe::take_log(&log);
                let mut rc = RecordingContext::new(c.clone(), log.clone());
                let g = match entry {
                    Entry::StrImm => api::eval_str(&src, &rc),
                    Entry::StrMut => api::eval_str_mut(&src, &mut rc),
                    Entry::TreeImm => api::eval_tree(&tree, &rc),
                    Entry::TreeMut => api::eval_tree_mut(&tree, &mut rc),
                };
                let ev = observe::take_log(&log)
                    .into_iter()
                    .filter_map(|e| match e {
                        observe::Event::UserCall(n, v) => Some(crate::refmodel::eval::REvent::UserCall(n, RV::from_value(&v))),
                        _ => None,
                    })
                    .collect();
                (g, ev)
            } else {
                let _ = observe::take_log(&log);
                let mut cc = c.clone();
                let g = match entry {
                    Entry::StrImm => api::eval_str(&src, &cc),
                    Entry::StrMut => api::eval_str_mut(&src, &mut cc),
                    Entry::TreeImm => api::eval_tree(&tree, &cc),
                    Entry::TreeMut => api::eval_tree_mut(&tree, &mut cc),
                };
                let ev = observe::take_log(&log)
                    .into_iter()
                    .filter_map(|e| match e {
                        observe::Event::UserCall(n, v) => Some(crate::refmodel::eval::REvent::UserCall(n, RV::from_value(&v))),
                        _ => None,
                    })
                    .collect();
                (g, ev)
            };
            out.eval();
            out.nontrivial(&format!("{}|{}|{}|{}|{}|{:?}", src, kind, switch, user_mode, var, entry));
            let ok = got.lifted().map_or(false, |l| outcome_matches(&rr.result, &l));
            if !ok {
                out.violation("resolution/result", format!("{}  entry {:?}", desc, entry), exec::show_ref_result(&rr.result), got.show());
                continue;
            }
            // which user functions ran, with which argument shape
            let want_calls: Vec<&crate::refmodel::eval::REvent> = rr.run.log.iter().filter(|e| matches!(e, crate::refmodel::eval::REvent::UserCall(..))).collect();
            let same = want_calls.len() == effects.len() && want_calls.iter().zip(&effects).all(|(a, b)| a.same(b));
            if !same {
                out.violation(
                    "resolution/callee",
                    format!("{}  entry {:?}", desc, entry),
                    format!("user-function calls [{}]", want_calls.iter().map(|e| e.show()).collect::<Vec<_>>().join(" · ")),
                    exec::show_effects(&effects),
                );
            }
            match &rr.result {
                Ok(_) => out.seen("resolution outcomes", "value"),
                Err(e) => out.seen("resolution outcomes", &e.show().split('(').next().unwrap_or("").to_string()),
            }
        }
        out.sample(|| desc.clone());
        self.trees.insert(src, tree);
        let _ = Context::are_builtin_functions_disabled(&c);
        drop(drop_later);
    }
}

/// random nested call chains `f g h x` / `f(g(h(x)))` over user functions and builtins
/// Numeric types with the representation of the default ones: builtins are builtins for every numeric type, in whatever
/// order the types are used in one process.
#[derive(Debug, Clone, PartialEq)]
pub struct TwinNumericTypes;

impl evalexpr::EvalexprNumericTypes for TwinNumericTypes {
    type Int = i64;
    type Float = f64;
    fn int_as_float(int: &Self::Int) -> Self::Float {
        *int as f64
    }
    fn float_as_int(float: &Self::Float) -> Self::Int {
        *float as i64
    }
}

struct SecondNumericTypes;

impl Phase for SecondNumericTypes {
    fn name(&self) -> String {
        "every builtin name under a second numeric type, before and after its use under the default one".into()
    }
    fn len(&self) -> u64 {
        (BUILTINS.len() + OTHERS.len()) as u64 * 2
    }
    fn exhaustive(&self) -> bool {
        true
    }
    fn run(&mut self, idx: u64, _r: &mut Rng, out: &mut Out) {
        let k = (idx / 2) as usize;
        let name = if k < BUILTINS.len() { BUILTINS[k] } else { OTHERS[k - BUILTINS.len()] };
        let twin_first = idx % 2 == 1;
        out.begin(|| format!("{} under two numeric types ({} first)", name, if twin_first { "second type" } else { "default" }));
        let args = ["(1)", "(1, 2)", "(2.5)", "(\"ab\")", "(\"ab\", 1)", "((1, 2), 1)", "()", "(true, 1, 2)", " 3"];
        for a in args {
            let src = format!("{}{}", name, a);
            let run_default = |on: bool| -> String {
                match observe::guard(|| {
                    if on {
                        evalexpr::eval_with_context(&src, &evalexpr::HashMapContext::<DefaultNumericTypes>::new())
                    } else {
                        evalexpr::eval_with_context(&src, &EmptyContext::<DefaultNumericTypes>::default())
                    }
                }) {
                    Ok(r) => format!("{:?}", r),
                    Err(p) => format!("PANIC {}", api::panic_text(&p)),
                }
            };
            let run_twin = |kind: usize| -> String {
                match observe::guard(|| match kind {
                    0 => evalexpr::eval_with_context(&src, &evalexpr::HashMapContext::<TwinNumericTypes>::new()),
                    1 => evalexpr::eval_with_context(&src, &EmptyContextWithBuiltinFunctions::<TwinNumericTypes>::default()),
                    _ => evalexpr::eval_with_context(&src, &EmptyContext::<TwinNumericTypes>::default()),
                }) {
                    Ok(r) => format!("{:?}", r),
                    Err(p) => format!("PANIC {}", api::panic_text(&p)),
                }
            };
            let (d_on, t_on, t_fixed, d_off, t_off);
            if twin_first {
                t_on = run_twin(0);
                d_on = run_default(true);
                t_off = run_twin(2);
                d_off = run_default(false);
                t_fixed = run_twin(1);
            } else {
                d_on = run_default(true);
                t_on = run_twin(0);
                t_fixed = run_twin(1);
                d_off = run_default(false);
                t_off = run_twin(2);
            }
            out.evals(5);
            out.count("sources evaluated under both numeric types");
            out.nontrivial(&src);
            if d_on != t_on || d_on != t_fixed || d_off != t_off {
                out.violation(
                    "resolution/second-numeric-type",
                    format!("{}   [HashMapContext / fixed contexts of a second numeric type (Int = i64, Float = f64), {} used first]", src, if twin_first { "the second type" } else { "the default type" }),
                    format!("as under the default numeric types: builtins on {} ; off {}", d_on, d_off),
                    format!("HashMapContext {} ; EmptyContextWithBuiltinFunctions {} ; EmptyContext {}", t_on, t_fixed, t_off),
                );
            }
        }
        out.sample(|| format!("{} resolves alike under both numeric types", name));
    }
}

struct Chains {
    n: u64,
}

impl Phase for Chains {
    fn name(&self) -> String {
        "random-nested-call-chains".into()
    }
    fn len(&self) -> u64 {
        self.n
    }
    fn run(&mut self, _idx: u64, r: &mut Rng, out: &mut Out) {
        use crate::refmodel::lex::render_spaced;
        use crate::refmodel::parse::{render_ast, Ast, Parens};
        let pool = ["id", "mk", "typeof", "len", "str::from", "math::abs", "bitnot", "nosuch", "floor", "min", "if"];
        let depth = r.range(1, 5);
        let mut a = match r.below(4) {
            0 => Ast::Read("x".into()),
            1 => Ast::Const(RV::Int(r.below(9) as i64)),
            2 => Ast::Const(RV::Str("abc".into())),
            _ => Ast::Tuple(vec![Ast::Read("x".into()), Ast::Const(RV::Int(2))]),
        };
        for _ in 0..depth {
            a = Ast::Call(r.pick(&pool).to_string(), Box::new(a));
        }
        let mut m = Model::new();
        m.vars.insert("x".into(), RV::Int(-4));
        m.funs.insert("id".into(), FnModel::Identity);
        m.funs.insert("mk".into(), FnModel::Marker);
        // sometimes a user function shadows a builtin
        if r.chance(1, 3) {
            m.funs.insert(r.pick(&["typeof", "len", "floor", "min"]).to_string(), FnModel::Marker);
        }
        m.builtins_off = r.chance(1, 4);
        let src = render_spaced(&render_ast(&a, Parens::Minimal, Some(r), true));
        out.begin(|| src.clone());
        let rr = exec::run_ref(&a, &m, true);
        if matches!(rr.result, Err(RErr::Unclaimed(_))) {
            out.count("cells the reference leaves unclaimed (skipped)");
            return;
        }
        let ir = exec::run_impl(&src, None, &m, Entry::StrMut, false);
        out.eval();
        if exec::compare(out, "resolution/chain", &src, &m, &rr, &ir, Entry::StrMut) {
            out.nontrivial(&format!("{}|{}|{:?}", src, m.builtins_off, m.funs.keys().collect::<Vec<_>>()));
            out.sample(|| format!("`{}` => {}", src, ir.got.show()));
        }
    }
}

pub fn selfcheck() -> Result<String, String> {
    // f x is f(x); f g x is f(g(x)); f(a, b) passes the 2-tuple; f() passes the empty value
    use crate::refmodel::parse::Ast;
    let p = |s: &str| lex(s).ok().map(|l| classify(&l.toks));
    let sx = |s: &str| match p(s) {
        Some((Class::Well, Some(a))) => a.sx(),
        _ => "?".into(),
    };
    if sx("f x") != sx("f(x)") || sx("f g x") != sx("f(g(x))") || sx("f(a, b)") != "(f:f (, r:a r:b))" || sx("f()") != "(f:f E)" {
        return Err("reference parser: call forms".into());
    }
    let _ = Ast::Empty;
    Ok("call forms of the README reproduced by the reference parser".into())
}

pub fn phases(cfg: &Cfg) -> Vec<Box<dyn Phase>> {
    let mut names: Vec<&'static str> = BUILTINS.to_vec();
    names.extend(OTHERS);
    vec![
        Box::new(Matrix {
            names,
            trees: std::collections::HashMap::new(),
        }),
        Box::new(SecondNumericTypes),
        Box::new(Chains {
            n: cfg.n(200_000, 20_000_000),
        }),
    ]
}

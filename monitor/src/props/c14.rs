//! C14 — identifier iterators describe exactly the identifiers of the expression.

use super::c02::enumerate_asts_with;
use crate::api::{self, Built, Got};
use crate::fw::{Cfg, Out, Phase};
use crate::gen::AstGen;
use crate::observe::{self, guard, FnModel};
use crate::refmodel::builtins::is_builtin;
use crate::refmodel::errs::ErrClass;
use crate::refmodel::eval::Model;
use crate::refmodel::lex::render_spaced;
use crate::refmodel::parse::{render_ast, Ast, Parens};
use crate::refmodel::value::RV;
use crate::rng::Rng;
use evalexpr::Node;
use std::collections::BTreeMap;

/// occurrence list in source order: ('r' read | 'w' assignment target | 'f' applied function, name)
pub fn occurrences(a: &Ast, out: &mut Vec<(char, String)>) {
    match a {
        Ast::Read(n) => out.push(('r', n.clone())),
        Ast::Assign(_, t, rhs) => {
            out.push(('w', t.clone()));
            occurrences(rhs, out);
        },
        Ast::Call(f, arg) => {
            out.push(('f', f.clone()));
            occurrences(arg, out);
        },
        Ast::Un(_, x) | Ast::Group(x) => occurrences(x, out),
        Ast::Bin(_, l, r) => {
            occurrences(l, out);
            occurrences(r, out);
        },
        Ast::Tuple(v) | Ast::Chain(v) => {
            for x in v {
                occurrences(x, out);
            }
        },
        _ => {},
    }
}

fn names_of(occ: &[(char, String)], classes: &[char]) -> Vec<String> {
    occ.iter().filter(|o| classes.contains(&o.0)).map(|o| o.1.clone()).collect()
}

fn check_iterators(out: &mut Out, src: &str, tree: &Node, occ: &[(char, String)]) -> bool {
    let mut ok = true;
    let mut cmp = |out: &mut Out, which: &str, got: Result<Vec<String>, observe::PanicInfo>, classes: &[char]| {
        let want = names_of(occ, classes);
        match got {
            Ok(g) if g == want => {},
            Ok(g) => {
                ok = false;
                out.violation(&format!("iterators/{}", which), src.to_string(), format!("{:?}", want), format!("{:?}", g));
            },
            Err(p) => {
                ok = false;
                out.violation("panic", format!("{} on `{}`", which, src), "returns".into(), api::panic_text(&p));
            },
        }
    };
    let s = |it: &mut dyn Iterator<Item = &str>| -> Vec<String> { it.map(|x| x.to_string()).collect() };
    cmp(out, "iter_identifiers", guard(|| s(&mut tree.iter_identifiers())), &['r', 'w', 'f']);
    cmp(out, "iter_variable_identifiers", guard(|| s(&mut tree.iter_variable_identifiers())), &['r', 'w']);
    cmp(out, "iter_read_variable_identifiers", guard(|| s(&mut tree.iter_read_variable_identifiers())), &['r']);
    cmp(out, "iter_write_variable_identifiers", guard(|| s(&mut tree.iter_write_variable_identifiers())), &['w']);
    cmp(out, "iter_function_identifiers", guard(|| s(&mut tree.iter_function_identifiers())), &['f']);
    // the mutable variants visit the same occurrences (observed on a clone)
    let m = |f: &dyn Fn(&mut Node) -> Vec<String>| -> Result<Vec<String>, observe::PanicInfo> {
        let mut c = tree.clone();
        guard(|| f(&mut c))
    };
    cmp(out, "iter_identifiers_mut", m(&|t| t.iter_identifiers_mut().map(|x| x.clone()).collect()), &['r', 'w', 'f']);
    cmp(out, "iter_variable_identifiers_mut", m(&|t| t.iter_variable_identifiers_mut().map(|x| x.clone()).collect()), &['r', 'w']);
    cmp(out, "iter_read_variable_identifiers_mut", m(&|t| t.iter_read_variable_identifiers_mut().map(|x| x.clone()).collect()), &['r']);
    cmp(out, "iter_write_variable_identifiers_mut", m(&|t| t.iter_write_variable_identifiers_mut().map(|x| x.clone()).collect()), &['w']);
    cmp(out, "iter_function_identifiers_mut", m(&|t| t.iter_function_identifiers_mut().map(|x| x.clone()).collect()), &['f']);
    // a partially advanced iterator finished through the adaptor methods (fold / for_each / last / count / nth)
    let all = names_of(occ, &['r', 'w', 'f']);
    for k in 0..=all.len().min(3) {
        let rest: Vec<String> = all[k.min(all.len())..].to_vec();
        let got = guard(|| {
            let mut it = tree.iter_identifiers();
            for _ in 0..k {
                it.next();
            }
            let mut a: Vec<String> = Vec::new();
            it.for_each(|x| a.push(x.to_string()));
            let mut it = tree.iter_identifiers();
            for _ in 0..k {
                it.next();
            }
            let b: Vec<String> = it.fold(Vec::new(), |mut acc, x| {
                acc.push(x.to_string());
                acc
            });
            let mut it = tree.iter_identifiers();
            for _ in 0..k {
                it.next();
            }
            let last = it.last().map(|x| x.to_string());
            let cnt = tree.iter_identifiers().skip(k).count();
            let nth = tree.iter_variable_identifiers().nth(k).map(|x| x.to_string());
            let rev_total = tree.iter().count();
            (a, b, last, cnt, nth, rev_total)
        });
        match got {
            Ok((a, b, last, cnt, nth, _)) => {
                let want_nth = names_of(occ, &['r', 'w']).get(k).cloned();
                if a != rest || b != rest || last != rest.last().cloned() || cnt != rest.len() || nth != want_nth {
                    ok = false;
                    out.violation(
                        "iterators/partially-advanced",
                        format!("{}  (iter_identifiers advanced by {} then for_each / fold / last / count; iter_variable_identifiers().nth({}))", src, k, k),
                        format!("{:?} / last {:?} / count {} / nth {:?}", rest, rest.last(), rest.len(), want_nth),
                        format!("for_each {:?} / fold {:?} / last {:?} / count {} / nth {:?}", a, b, last, cnt, nth),
                    );
                    break;
                }
            },
            Err(p) => {
                ok = false;
                out.violation("panic", format!("iterator adaptors on `{}`", src), "returns".into(), api::panic_text(&p));
                break;
            },
        }
    }
    // a node inside the tree is a tree of its own: its immutable and its mutable iterators list the same identifiers
    // (up to six inner nodes per program)
    let inner: Vec<&Node> = tree.iter().collect();
    let stride = (inner.len() / 6).max(1);
    for node in inner.iter().step_by(stride).take(6) {
        let imm: Vec<Vec<String>> = vec![
            node.iter_identifiers().map(|x| x.to_string()).collect(),
            node.iter_variable_identifiers().map(|x| x.to_string()).collect(),
            node.iter_function_identifiers().map(|x| x.to_string()).collect(),
        ];
        let mut c = (*node).clone();
        let mutable: Vec<Vec<String>> = vec![
            c.iter_identifiers_mut().map(|x| x.clone()).collect(),
            c.iter_variable_identifiers_mut().map(|x| x.clone()).collect(),
            c.iter_function_identifiers_mut().map(|x| x.clone()).collect(),
        ];
        // an identifier node lists itself (the whole tree's root is never one, an inner node may be)
        let own: Option<String> = match node.operator() {
            evalexpr::Operator::VariableIdentifierRead { identifier } | evalexpr::Operator::VariableIdentifierWrite { identifier } | evalexpr::Operator::FunctionIdentifier { identifier } => Some(identifier.clone()),
            _ => None,
        };
        let _ = own;
        if imm != mutable {
            ok = false;
            out.violation(
                "iterators/inner-node-mutable-vs-immutable",
                format!("{}  (inner node {})", src, crate::refmodel::parse::op_name(node.operator())),
                format!("the same lists from the immutable iterators {:?}", imm),
                format!("{:?} from the mutable ones", mutable),
            );
            break;
        }
    }
    out.evals(14);
    ok
}

fn rename_got(g: &Got, var: &dyn Fn(&str) -> String, fun: &dyn Fn(&str) -> String) -> String {
    match g {
        Got::Val(v) => format!("Ok({})", v.show()),
        Got::Err(ErrClass::UnknownVar(n), _) => format!("UnknownVar({})", var(n)),
        Got::Err(ErrClass::UnknownFn(n), _) => format!("UnknownFn({})", fun(n)),
        Got::Err(_, d) => format!("Err({})", d),
        Got::Panic(p) => format!("PANIC {}", p),
    }
}

/// model in which a random subset of the occurring names is bound
fn model_for(occ: &[(char, String)], r: &mut Rng) -> Model {
    let mut m = Model::new();
    let vals = [RV::Int(2), RV::Int(-3), RV::Float(1.5), RV::Bool(true), RV::Bool(false), RV::Str("q".into()), RV::Tuple(vec![RV::Int(5), RV::Tuple(vec![RV::Int(6), RV::Int(7)])]), RV::Str("a".into())];
    for (c, n) in occ {
        match c {
            'f' => {
                if !is_builtin(n) && r.chance(4, 5) {
                    let f = match r.below(4) {
                        0 => FnModel::Identity,
                        1 => FnModel::IntMap,
                        2 => FnModel::BoolMap,
                        _ => FnModel::Const(RV::Int(1).to_value()),
                    };
                    m.funs.insert(n.clone(), f);
                }
            },
            _ => {
                if r.chance(4, 5) {
                    m.vars.insert(n.clone(), r.pick(&vals).clone());
                } else if !is_builtin(n) && r.chance(1, 2) {
                    // the variable is unbound but a function of the same name exists: separate namespaces
                    m.funs.insert(n.clone(), FnModel::Const(RV::Int(300).to_value()));
                }
            },
        }
    }
    m
}

fn check_case(out: &mut Out, ast: &Ast, mode: Parens, r: &mut Rng) {
    let mut toks = render_ast(ast, mode, Some(r), true);
    if r.chance(1, 4) {
        // numbers are never identifiers, however they are written (`0x1e-3`, `2E+7`)
        let k = crate::gen::respell_literals(&mut toks, r);
        out.count_n("literals respelled (hexadecimal, exponent)", k as u64);
    }
    // mostly single-spaced; now and then tight or under a random separator plan (comments, Unicode whitespace)
    let src = match r.below(8) {
        0 => crate::gen::render_tight(&toks),
        1 => crate::gen::render_with_plan(&toks, r, true).unwrap_or_else(|| render_spaced(&toks)),
        _ => render_spaced(&toks),
    };
    check_rendered(out, ast, src, r)
}

fn check_rendered(out: &mut Out, ast: &Ast, src: String, r: &mut Rng) {
    out.begin(|| src.clone());
    let tree = match api::build(&src) {
        Built::Tree(t) => t,
        Built::Err(..) => {
            out.count("program does not precompile (left to C02/C05)");
            return;
        },
        Built::Panic(p) => {
            out.violation("panic", src.clone(), "Ok or Err".into(), p);
            return;
        },
    };
    let mut occ = Vec::new();
    occurrences(ast, &mut occ);
    out.nontrivial(&src);
    out.count_n("identifier occurrences checked", occ.len() as u64);
    if !check_iterators(out, &src, &tree, &occ) {
        return;
    }
    out.sample(|| format!("`{}` occurrences {:?}", src, occ));

    // evaluation can only report unknown identifiers the iterators list
    let model = model_for(&occ, r);
    let log = observe::new_log();
    let mut ctx = api::ctx_from_model(&model, &log);
    let base = api::eval_tree_mut(&tree, &mut ctx);
    out.eval();
    match &base {
        Got::Err(ErrClass::UnknownVar(n), _) => {
            out.count("evaluations reporting an unknown variable");
            if !names_of(&occ, &['r', 'w']).contains(n) {
                out.violation("iterators/unknown-variable-not-listed", src.clone(), format!("a name among {:?}", names_of(&occ, &['r', 'w'])), base.show());
            }
        },
        Got::Err(ErrClass::UnknownFn(n), _) => {
            out.count("evaluations reporting an unknown function");
            if !names_of(&occ, &['f']).contains(n) {
                out.violation("iterators/unknown-function-not-listed", src.clone(), format!("a name among {:?}", names_of(&occ, &['f'])), base.show());
            }
        },
        Got::Panic(p) => {
            out.violation("panic", src.clone(), "Ok or Err".into(), p.clone());
            return;
        },
        _ => {},
    }
    let base_vars = api::ctx_vars(&ctx);

    // renaming: consistently through the mutable iterators and in the context
    let scheme = r.below(5);
    let names: Vec<String> = {
        let mut v: Vec<String> = occ.iter().map(|o| o.1.clone()).collect();
        v.sort();
        v.dedup();
        v
    };
    let map: BTreeMap<String, String> = names
        .iter()
        .enumerate()
        .map(|(i, n)| {
            let to = if is_builtin(n) {
                n.clone()
            } else {
                match scheme {
                    0 => n.clone(),
                    1 => format!("r_{}", n),
                    2 => format!("{}_{}", n, i * 7 + 1),
                    // underscores and digits only: still an identifier
                    3 => format!("_{}", i * 3 + 1),
                    _ => format!("ω{}", i),
                }
            };
            (n.clone(), to)
        })
        .collect();
    let ren = |n: &str| map.get(n).cloned().unwrap_or_else(|| n.to_string());
    // which classes are renamed: all identifiers at once; variables and functions through their own iterators;
    // only the variables (context variables renamed, functions untouched); only the functions
    let mode = r.below(4);
    let by_class = mode == 1;
    let (ren_vars, ren_funs) = (mode != 3, mode != 2);
    let mut t2 = tree.clone();
    let renamed = guard(|| match mode {
        0 => {
            for id in t2.iter_identifiers_mut() {
                *id = ren(id);
            }
        },
        1 => {
            for id in t2.iter_variable_identifiers_mut() {
                *id = ren(id);
            }
            for id in t2.iter_function_identifiers_mut() {
                *id = ren(id);
            }
        },
        2 => {
            for id in t2.iter_variable_identifiers_mut() {
                *id = ren(id);
            }
        },
        _ => {
            for id in t2.iter_function_identifiers_mut() {
                *id = ren(id);
            }
        },
    });
    if let Err(p) = renamed {
        out.violation("panic", format!("renaming `{}`", src), "returns".into(), api::panic_text(&p));
        return;
    }
    // renaming in the source text must give the very tree the mutable iterators produced
    if mode == 0 {
        fn rename_ast(a: &Ast, ren: &dyn Fn(&str) -> String) -> Ast {
            match a {
                Ast::Read(n) => Ast::Read(ren(n)),
                Ast::Assign(o, t, r) => Ast::Assign(o, ren(t), Box::new(rename_ast(r, ren))),
                Ast::Call(f, x) => Ast::Call(ren(f), Box::new(rename_ast(x, ren))),
                Ast::Un(o, x) => Ast::Un(o, Box::new(rename_ast(x, ren))),
                Ast::Group(x) => Ast::Group(Box::new(rename_ast(x, ren))),
                Ast::Bin(o, l, r) => Ast::Bin(o, Box::new(rename_ast(l, ren)), Box::new(rename_ast(r, ren))),
                Ast::Tuple(v) => Ast::Tuple(v.iter().map(|x| rename_ast(x, ren)).collect()),
                Ast::Chain(v) => Ast::Chain(v.iter().map(|x| rename_ast(x, ren)).collect()),
                other => other.clone(),
            }
        }
        let renamed_src = render_spaced(&render_ast(&rename_ast(ast, &ren), Parens::Full, None, false));
        if let Built::Tree(t3) = api::build(&renamed_src) {
            let full = match api::build(&render_spaced(&render_ast(ast, Parens::Full, None, false))) {
                Built::Tree(t) => Some(t),
                _ => None,
            };
            if let Some(mut f) = full {
                for id in f.iter_identifiers_mut() {
                    *id = ren(id);
                }
                out.eval();
                if format!("{:?}", f) != format!("{:?}", t3) {
                    out.violation(
                        "iterators/renaming-differs-from-source-renaming",
                        format!("{}  renamed by {:?}", src, map),
                        format!("the tree of `{}`: {}", renamed_src, crate::refmodel::parse::node_sx(&t3)),
                        crate::refmodel::parse::node_sx(&f),
                    );
                }
            }
        } else {
            out.violation(
                "iterators/renamed-source-rejected",
                format!("{}  renamed by {:?}", src, map),
                "precompiles like the original".into(),
                format!("`{}` is rejected", renamed_src),
            );
        }
    }
    let mut m2 = Model::new();
    m2.builtins_off = model.builtins_off;
    let rv = |n: &str| if ren_vars { ren(n) } else { n.to_string() };
    let rf = |n: &str| if ren_funs { ren(n) } else { n.to_string() };
    for (k, v) in &model.vars {
        m2.vars.insert(rv(k), v.clone());
    }
    for (k, f) in &model.funs {
        m2.funs.insert(rf(k), f.clone());
    }
    let mut ctx2 = api::ctx_from_model(&m2, &log);
    let got2 = api::eval_tree_mut(&t2, &mut ctx2);
    out.eval();
    out.count("renamings evaluated");
    let want = rename_got(&base, &rv, &rf);
    let have = rename_got(&got2, &|n| n.to_string(), &|n| n.to_string());
    let vars2 = api::ctx_vars(&ctx2);
    let want_vars: BTreeMap<String, RV> = base_vars.iter().map(|(k, v)| (rv(k), v.clone())).collect();
    if want != have || !api::same_vars(&want_vars, &vars2) {
        out.violation(
            "iterators/renaming-changes-result",
            format!("{}  renamed by {:?} ({})", src, map, ["iter_identifiers_mut", "variable + function iterators", "variables only", "functions only"][mode]),
            format!("{} ; context {}", want, api::show_vars(&want_vars)),
            format!("{} ; context {}", have, api::show_vars(&vars2)),
        );
    }
}

struct Exhaustive {
    asts: Vec<Ast>,
}

impl Phase for Exhaustive {
    fn name(&self) -> String {
        "all-asts<=3-operators, distinct names x {minimal,full}".into()
    }
    fn len(&self) -> u64 {
        self.asts.len() as u64 * 2
    }
    fn exhaustive(&self) -> bool {
        true
    }
    fn run(&mut self, idx: u64, r: &mut Rng, out: &mut Out) {
        let ast = self.asts[(idx / 2) as usize].clone();
        check_case(out, &ast, if idx % 2 == 0 { Parens::Minimal } else { Parens::Full }, r);
    }
}

struct Random {
    n: u64,
}

impl Phase for Random {
    fn name(&self) -> String {
        "random-asts depth<=12".into()
    }
    fn len(&self) -> u64 {
        self.n
    }
    fn run(&mut self, _idx: u64, r: &mut Rng, out: &mut Out) {
        let depth = r.range(1, 12);
        let distinct = r.chance(1, 2);
        let ast = {
            let vars = ["a", "b", "c", "x", "f", "g", "total", "ī", "нx", "ȫ", "ш", "a.b", "x'", "#q", "a\u{feff}b", "n\u{feff}", "\u{feff}z", "a\u{200b}", "r", "b", "a.0", "a.1", "a.1.0", "total.1", "x.len", "a[0]",
                // names in the builtin namespaces, names of well-known constants, `#` (a shebang needs `#!`), `_`
                "math::t", "str::x", "math::inf", "math::nan", "math::pi", "#", "#", "_", "self", "str::", "mod", "xor", "in", "is", "div", "op"];
            let funs = ["f", "g", "h", "max", "len", "math::clamp", "str::nope", "ns::f", "math::len", "a::b::c", "a", "total", "r", "r", "b", "f\u{feff}"];
            let mut g = AstGen {
                r,
                vars: &vars,
                funs: &funs,
                allow_assign: true,
                allow_seq: true,
                distinct_names: distinct,
                counter: 0,
                max_nodes: 150,
                nodes: 0,
            };
            g.expr(depth)
        };
        let mode = match r.below(3) {
            0 => Parens::Minimal,
            1 => Parens::Full,
            _ => Parens::Random,
        };
        check_case(out, &ast, mode, r);
    }
}

/// Histories on one tree object: evaluate, rename the applied functions through the mutable iterator (builtin to
/// builtin, builtin to user function, unknown to builtin, …), evaluate again — the outcome is that of a tree precompiled
/// from the renamed source. And `clone_from` into a tree of the same shape whose identifiers have other classes: the
/// iterators of the refreshed tree describe the source tree.
struct Histories {
    n: u64,
}

fn map_calls(a: &Ast, f: &dyn Fn(&str) -> String) -> Ast {
    match a {
        Ast::Call(n, x) => Ast::Call(f(n), Box::new(map_calls(x, f))),
        Ast::Assign(o, t, r) => Ast::Assign(o, t.clone(), Box::new(map_calls(r, f))),
        Ast::Un(o, x) => Ast::Un(o, Box::new(map_calls(x, f))),
        Ast::Group(x) => Ast::Group(Box::new(map_calls(x, f))),
        Ast::Bin(o, l, r) => Ast::Bin(o, Box::new(map_calls(l, f)), Box::new(map_calls(r, f))),
        Ast::Tuple(v) => Ast::Tuple(v.iter().map(|x| map_calls(x, f)).collect()),
        Ast::Chain(v) => Ast::Chain(v.iter().map(|x| map_calls(x, f)).collect()),
        other => other.clone(),
    }
}

/// same shape, other identifier classes: `n op e` becomes `n = e` and the other way round
fn class_twist(a: &Ast) -> Ast {
    match a {
        Ast::Bin(_, l, r) if matches!(**l, Ast::Read(_)) => match &**l {
            Ast::Read(n) => Ast::Assign("=", n.clone(), Box::new(class_twist(r))),
            _ => unreachable!(),
        },
        Ast::Assign(_, t, r) => Ast::Bin("+", Box::new(Ast::Read(t.clone())), Box::new(class_twist(r))),
        Ast::Call(n, x) => Ast::Call(n.clone(), Box::new(class_twist(x))),
        Ast::Un(o, x) => Ast::Un(o, Box::new(class_twist(x))),
        Ast::Group(x) => Ast::Group(Box::new(class_twist(x))),
        Ast::Bin(o, l, r) => Ast::Bin(o, Box::new(class_twist(l)), Box::new(class_twist(r))),
        Ast::Tuple(v) => Ast::Tuple(v.iter().map(class_twist).collect()),
        Ast::Chain(v) => Ast::Chain(v.iter().map(class_twist).collect()),
        other => other.clone(),
    }
}

impl Phase for Histories {
    fn name(&self) -> String {
        "histories on one tree: evaluate, rename applied functions, evaluate; clone_from over other identifier classes".into()
    }
    fn len(&self) -> u64 {
        self.n
    }
    fn run(&mut self, _idx: u64, r: &mut Rng, out: &mut Out) {
        let depth = r.range(1, 6);
        let fpool = ["min", "max", "floor", "ceil", "len", "math::abs", "str::to_lowercase", "str::to_uppercase", "typeof", "f", "g", "nosuch", "round"];
        let ast = {
            let vars = ["a", "b", "c", "x"];
            let mut g = AstGen {
                r,
                vars: &vars,
                funs: &fpool,
                allow_assign: true,
                allow_seq: true,
                distinct_names: false,
                counter: 0,
                max_nodes: 40,
                nodes: 0,
            };
            g.expr(depth)
        };
        let src = render_spaced(&render_ast(&ast, Parens::Full, None, false));
        out.begin(|| src.clone());
        let tree = match api::build(&src) {
            Built::Tree(t) => t,
            _ => return,
        };
        let mut occ = Vec::new();
        occurrences(&ast, &mut occ);
        let mut model = model_for(&occ, r);
        for f in ["f", "g"] {
            model.funs.entry(f.to_string()).or_insert(FnModel::IntMap);
        }
        let log = observe::new_log();
        // clone_from into a tree of the same shape with other identifier classes
        {
            let twisted = render_spaced(&render_ast(&class_twist(&ast), Parens::Full, None, false));
            if let Built::Tree(mut dst) = api::build(&twisted) {
                if r.chance(1, 2) {
                    let _ = api::eval_tree_mut(&dst, &mut api::ctx_from_model(&model, &log));
                }
                dst.clone_from(&tree);
                out.eval();
                out.count("clone_from refreshes");
                if format!("{:?}", dst) != format!("{:?}", tree) {
                    out.violation("iterators/clone_from", format!("tree of `{}` refreshed by clone_from from the tree of `{}`", twisted, src), crate::refmodel::parse::node_sx(&tree), crate::refmodel::parse::node_sx(&dst));
                } else if !check_iterators(out, &format!("tree of `{}` refreshed by clone_from from the tree of `{}`", twisted, src), &dst, &occ) {
                    return;
                }
            }
        }
        // evaluate once or twice, then rename
        for _ in 0..r.range(1, 2) {
            let _ = if r.chance(1, 2) { api::eval_tree_mut(&tree, &mut api::ctx_from_model(&model, &log)) } else { api::eval_tree(&tree, &api::ctx_from_model(&model, &log)) };
            out.eval();
        }
        let fnames: Vec<String> = {
            let mut v = names_of(&occ, &['f']);
            v.sort();
            v.dedup();
            v
        };
        if fnames.is_empty() {
            return;
        }
        let map: BTreeMap<String, String> = fnames.iter().map(|n| (n.clone(), if r.chance(3, 4) { r.pick(&fpool).to_string() } else { n.clone() })).collect();
        let ren = |n: &str| map.get(n).cloned().unwrap_or_else(|| n.to_string());
        let on_clone = r.chance(1, 3);
        let mut t2 = if on_clone { tree.clone() } else { tree };
        for id in t2.iter_function_identifiers_mut() {
            *id = ren(id);
        }
        let renamed_ast = map_calls(&ast, &ren);
        let renamed_src = render_spaced(&render_ast(&renamed_ast, Parens::Full, None, false));
        let fresh = match api::build(&renamed_src) {
            Built::Tree(t) => t,
            _ => return,
        };
        let (mut c1, mut c2) = (api::ctx_from_model(&model, &log), api::ctx_from_model(&model, &log));
        let (g1, g2) = if r.chance(1, 2) { (api::eval_tree_mut(&t2, &mut c1), api::eval_tree_mut(&fresh, &mut c2)) } else { (api::eval_tree(&t2, &c1), api::eval_tree(&fresh, &c2)) };
        out.evals(2);
        out.count("evaluate / rename functions / evaluate histories");
        out.nontrivial(&format!("{} -> {}", src, renamed_src));
        out.sample(|| format!("`{}` evaluated, functions renamed by {:?}, evaluated: {}", src, map, g1.show()));
        let mut occ2 = Vec::new();
        occurrences(&renamed_ast, &mut occ2);
        if !g1.same(&g2) || !api::same_vars(&api::ctx_vars(&c1), &api::ctx_vars(&c2)) {
            out.violation(
                "iterators/rename-after-evaluation",
                format!("`{}` evaluated, then its applied functions renamed by {:?} through iter_function_identifiers_mut{}, then evaluated", src, map, if on_clone { " on a clone" } else { "" }),
                format!("as the tree of `{}`: {} ; context {}", renamed_src, g2.show(), api::show_vars(&api::ctx_vars(&c2))),
                format!("{} ; context {}", g1.show(), api::show_vars(&api::ctx_vars(&c1))),
            );
        } else {
            check_iterators(out, &format!("`{}` with functions renamed by {:?}", src, map), &t2, &occ2);
        }
    }
}

/// n-ary sequences, empty parenthesis nodes, and non-last children with grandchildren — the shapes the
/// hand-written traversal is most likely to get wrong
/// hexadecimal and exponent spellings directly in front of a sign and a digit (`0x1e-3`, `t=0x2E+7*n`): numbers,
/// never identifiers
struct SpelledNumbers {
    n: u64,
}

impl Phase for SpelledNumbers {
    fn name(&self) -> String {
        "respelled-literals tight".into()
    }
    fn len(&self) -> u64 {
        self.n
    }
    fn run(&mut self, _idx: u64, r: &mut Rng, out: &mut Out) {
        let c = |v: RV| Ast::Const(v);
        let lit = match r.below(3) {
            0 => c(RV::Int(*r.pick(&[14, 30, 46, 254, 0xee, 0x1e5e, 0xe0e, 1, 255, 0xabcde]))),
            1 => c(RV::Float(*r.pick(&[1e3, 2.5e-3, 1e22, 5e-324, 14.0]))),
            _ => c(RV::Int((r.next() >> r.range(1, 63)) as i64)),
        };
        let rhs = match r.below(4) {
            0 => Ast::Read("n".into()),
            1 => Ast::Bin("*", Box::new(c(RV::Int(r.below(10) as i64))), Box::new(Ast::Read("n".into()))),
            _ => c(RV::Int(r.below(10) as i64)),
        };
        let op = *r.pick(&["-", "+", "-", "+", "*", "%"]);
        let mut ast = if r.chance(1, 2) { Ast::Bin(op, Box::new(lit), Box::new(rhs)) } else { Ast::Bin(op, Box::new(rhs), Box::new(lit)) };
        if r.chance(1, 3) {
            ast = Ast::Assign("=", "t".into(), Box::new(ast));
        }
        if r.chance(1, 4) {
            ast = Ast::Call("f".into(), Box::new(ast));
        }
        let mut toks = render_ast(&ast, Parens::Minimal, Some(r), true);
        for _ in 0..4 {
            crate::gen::respell_literals(&mut toks, r);
        }
        let src = crate::gen::render_tight(&toks);
        check_rendered(out, &ast, src, r);
    }
}

/// the first characters of a program: one-character and marker-like identifiers directly followed by every binary
/// operator, without blanks (`#!=limit`, `r<"x"`, `_-1`): nothing at the start of a text is special
struct FirstTokens;

const FIRST_NAMES: [&str; 16] = ["#", "r", "b", "0x", "_", "\u{feff}x", "math::nan", "x'", "$", "@", "~", "`", "?", ":", "::", "%%"];

impl Phase for FirstTokens {
    fn name(&self) -> String {
        "marker-like first identifiers x every binary operator, tight".into()
    }
    fn len(&self) -> u64 {
        (FIRST_NAMES.len() * crate::refmodel::lex::BINOPS.len() * 6) as u64
    }
    fn exhaustive(&self) -> bool {
        true
    }
    fn run(&mut self, idx: u64, r: &mut Rng, out: &mut Out) {
        let mut i = idx as usize;
        let shape = i % 6;
        i /= 6;
        let op = crate::refmodel::lex::BINOPS[i % crate::refmodel::lex::BINOPS.len()];
        i /= crate::refmodel::lex::BINOPS.len();
        let name = FIRST_NAMES[i];
        if name == "%%" {
            return;
        }
        let rhs = match shape % 3 {
            0 => Ast::Read("limit".into()),
            1 => Ast::Const(RV::Int(1)),
            _ => Ast::Const(RV::Str("x".into())),
        };
        let mut ast = Ast::Bin(op, Box::new(Ast::Read(name.to_string())), Box::new(rhs));
        if shape >= 3 {
            ast = Ast::Chain(vec![ast, Ast::Read("second_line".into())]);
        }
        let toks = render_ast(&ast, Parens::Minimal, None, true);
        let mut src = crate::gen::render_tight(&toks);
        if shape >= 3 {
            // the second statement on a line of its own
            src = src.replacen(';', ";\n", 1);
        }
        check_rendered(out, &ast, src, r);
    }
}

fn special_asts() -> Vec<Ast> {
    let rd = |n: &str| Ast::Read(n.to_string());
    let call = |f: &str, a: Ast| Ast::Call(f.to_string(), Box::new(a));
    let bin = |o: &'static str, a: Ast, b: Ast| Ast::Bin(o, Box::new(a), Box::new(b));
    vec![
        Ast::Tuple(vec![bin("+", rd("a"), rd("b")), bin("*", rd("c"), call("f", rd("d"))), rd("e")]),
        Ast::Chain(vec![Ast::Empty, Ast::Assign("=", "x".into(), Box::new(rd("y"))), Ast::Empty, call("g", Ast::Empty), rd("z")]),
        Ast::Tuple(vec![Ast::Tuple(vec![rd("a"), Ast::Empty, rd("b")]), Ast::Tuple(vec![Ast::Empty, rd("c")]), rd("d")]),
        call("f", Ast::Tuple(vec![call("g", rd("a")), call("h", Ast::Tuple(vec![rd("b"), rd("c")])), rd("d")])),
        bin("+", bin("*", bin("-", rd("a"), rd("b")), call("f", rd("c"))), bin("^", rd("d"), Ast::Un("neg", Box::new(rd("e"))))),
        Ast::Chain(vec![
            Ast::Assign("+=", "a".into(), Box::new(bin("+", rd("b"), call("f", Ast::Tuple(vec![rd("c"), rd("d")]))))),
            Ast::Tuple(vec![rd("e"), Ast::Chain(vec![rd("g1"), Ast::Assign("=", "h".into(), Box::new(rd("i")))])]),
        ]),
    ]
}

pub fn selfcheck() -> Result<String, String> {
    // the README's iterator example: "d = a + f(b + c)" lists d a f b c
    use crate::refmodel::lex::lex;
    use crate::refmodel::parse::{classify, Class};
    let l = lex("d = a + f(b + c)").map_err(|e| format!("{:?}", e))?;
    match classify(&l.toks) {
        (Class::Well, Some(a)) => {
            let mut occ = Vec::new();
            occurrences(&a, &mut occ);
            let names: Vec<String> = occ.iter().map(|o| o.1.clone()).collect();
            let classes: String = occ.iter().map(|o| o.0).collect();
            if names != ["d", "a", "f", "b", "c"] || classes != "wrfrr" {
                return Err(format!("occurrence list of the doc example is {:?}", occ));
            }
        },
        (c, _) => return Err(format!("doc example classified {:?}", c)),
    }
    Ok("occurrence list reproduces the documentation example (d a f b c / w r f r r)".into())
}

pub fn phases(cfg: &Cfg) -> Vec<Box<dyn Phase>> {
    let mut counter = 0usize;
    let mut asts = enumerate_asts_with(3, &mut |_, _| {
        counter += 1;
        match counter % 3 {
            0 => Ast::Const(RV::Int(1)),
            _ => Ast::Read(format!("v{}", counter)),
        }
    });
    // distinct names for targets and functions as well
    fn rename(a: &mut Ast, k: &mut usize) {
        match a {
            Ast::Assign(_, t, r) => {
                *k += 1;
                *t = format!("w{}", k);
                rename(r, k);
            },
            Ast::Call(f, x) => {
                *k += 1;
                *f = format!("f{}", k);
                rename(x, k);
            },
            Ast::Un(_, x) | Ast::Group(x) => rename(x, k),
            Ast::Bin(_, l, r) => {
                rename(l, k);
                rename(r, k);
            },
            Ast::Tuple(v) | Ast::Chain(v) => v.iter_mut().for_each(|x| rename(x, k)),
            _ => {},
        }
    }
    for a in asts.iter_mut() {
        let mut k = 0;
        rename(a, &mut k);
    }
    let mut all = special_asts();
    all.extend(asts);
    vec![
        Box::new(Exhaustive { asts: all }),
        Box::new(Random {
            n: cfg.n(250_000, 10_000_000),
        }),
        Box::new(FirstTokens),
        Box::new(Histories {
            n: cfg.n(60_000, 2_500_000),
        }),
        Box::new(SpelledNumbers {
            n: cfg.n(20_000, 1_000_000),
        }),
    ]
}

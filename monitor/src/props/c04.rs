//! C04 — variables keep the last assigned value; HashMapContext is type safe.
//! History + executable model: every operation is applied to a real HashMapContext and to the abstract map model;
//! after every step the complete observable state is compared.

use crate::api::{self, Ctx, Got};
use crate::fw::{Cfg, Out, Phase};
use crate::observe::{guard, FnModel};
use crate::refmodel::errs::{classify as classify_err, ErrClass};
use crate::refmodel::eval::{self, outcome_matches, Model, RErr, Run};
use crate::refmodel::lex::lex;
use crate::refmodel::parse::{classify, Ast, Class};
use crate::refmodel::value::{Ty, RV};
use crate::rng::Rng;
use evalexpr::{
    Context, ContextWithMutableFunctions, ContextWithMutableVariables, EvalexprError, Function, IterateVariablesContext,
    Value,
};
use std::collections::{HashSet, VecDeque};

#[derive(Clone, Debug)]
pub enum Op {
    SetValue(String, RV),
    Expr(String, Ast),
    ClearVars,
    ClearFuns,
    Clear,
    SetFn(String),
    /// rebinding: a function that returns the constant 99 whatever its argument
    SetFnConst(String),
    Toggle(bool),
    /// `fresh.clone_from(&ctx)` into a context that already holds other variables, functions and the other switch
    /// setting; the history continues on the target
    CloneFrom,
    /// clone; the history continues on the clone, the original is kept and must stay as it was
    CloneCtx,
}

impl Op {
    pub fn show(&self) -> String {
        match self {
            Op::SetValue(k, v) => format!("set_value({}, {})", k, v.show()),
            Op::Expr(s, _) => format!("eval_mut `{}`", s),
            Op::ClearVars => "clear_variables()".into(),
            Op::ClearFuns => "clear_functions()".into(),
            Op::Clear => "clear()".into(),
            Op::SetFn(f) => format!("set_function({}, identity)", f),
            Op::SetFnConst(f) => format!("set_function({}, constant 99)", f),
            Op::CloneFrom => "other.clone_from(&ctx) and continue on other".into(),
            Op::Toggle(b) => format!("set_builtin_functions_disabled({})", b),
            Op::CloneCtx => "clone() and continue on the clone".into(),
        }
    }
    fn kind(&self) -> &'static str {
        match self {
            Op::SetValue(..) => "set_value",
            Op::Expr(..) => "expr",
            Op::ClearVars => "clear_variables",
            Op::ClearFuns => "clear_functions",
            Op::Clear => "clear",
            Op::SetFn(_) | Op::SetFnConst(_) => "set_function",
            Op::CloneFrom => "clone_from",
            Op::Toggle(_) => "toggle",
            Op::CloneCtx => "clone",
        }
    }
}

fn expr_op(src: &str) -> Op {
    let l = lex(src).expect("expression op must lex");
    match classify(&l.toks) {
        (Class::Well, Some(a)) => Op::Expr(src.to_string(), a),
        other => panic!("expression op `{}` not well-formed: {:?}", src, other.0),
    }
}

pub fn domain_values() -> Vec<RV> {
    vec![
        RV::Int(1),
        RV::Int(2),
        RV::Float(1.5),
        RV::Float(-0.0),
        RV::Float(0.0),
        RV::Str("s".into()),
        RV::Str("".into()),
        RV::Bool(true),
        RV::Bool(false),
        RV::Empty,
        RV::Tuple(vec![RV::Int(1), RV::Int(2)]),
        RV::Tuple(vec![]),
        RV::Tuple(vec![RV::Empty]),
        // a long string (in-place fast paths like to start at some length)
        RV::Str("long ".repeat(70)),
    ]
}

pub fn all_ops(names: &[&str]) -> Vec<Op> {
    let mut ops = Vec::new();
    let lits = ["3", "0.5", "\"s\"", "true", "()", "(1, 2)", "(1, 2, 3)"];
    for n in names {
        for v in domain_values() {
            ops.push(Op::SetValue(n.to_string(), v));
        }
        for l in lits {
            ops.push(expr_op(&format!("{} = {}", n, l)));
        }
        // two texts that differ only in the blanks inside the literal
        ops.push(expr_op(&format!("{} = \"p q\"", n)));
        ops.push(expr_op(&format!("{} = \"p  q\"", n)));
        for op in ["+=", "-=", "*=", "/=", "%=", "^=", "&&=", "||="] {
            for l in &lits[..6] {
                ops.push(expr_op(&format!("{} {} {}", n, op, l)));
            }
        }
        ops.push(expr_op(n));
    }
    if names.len() >= 2 {
        ops.push(expr_op(&format!("{} = {}", names[0], names[1])));
        ops.push(expr_op(&format!("{} = {}", names[1], names[0])));
        ops.push(expr_op(&format!("{} += {}", names[0], names[1])));
        ops.push(expr_op(&format!("{} = 1; {} = 2.5; {}", names[0], names[1], names[0])));
    }
    // a user function named like a builtin, and calls that must reach it (or the builtin, or nothing)
    ops.push(expr_op("typeof(1)"));
    ops.push(expr_op("f(1) + len(\"ab\")"));
    ops.extend([
        Op::ClearVars,
        Op::ClearFuns,
        Op::Clear,
        Op::SetFn("f".into()),
        Op::SetFn("g".into()),
        Op::SetFn("typeof".into()),
        Op::SetFn("len".into()),
        Op::SetFnConst("f".into()),
        Op::SetFnConst("typeof".into()),
        // a function named like a variable: separate namespaces, also for the clears
        Op::SetFn("a".into()),
        Op::SetFnConst("b".into()),
        Op::CloneFrom,
        Op::Toggle(true),
        Op::Toggle(false),
        Op::CloneCtx,
    ]);
    ops
}

/// one live context: the real one and its model
pub struct Live {
    pub ctx: Ctx,
    pub model: Model,
}

pub fn fresh() -> Live {
    Live {
        ctx: Ctx::new(),
        model: Model::new(),
    }
}

/// an empty context obtained the other ways the API offers: `Default`, and what `std::mem::take` leaves behind
pub fn fresh_kind(k: u64) -> Live {
    let ctx = match k % 4 {
        0 | 1 => Ctx::new(),
        2 => Ctx::default(),
        _ => {
            let mut used = Ctx::new();
            let _ = used.set_value("a".into(), evalexpr::Value::Int(1));
            let _ = used.set_builtin_functions_disabled(true);
            let _taken = std::mem::take(&mut used);
            used
        },
    };
    Live {
        ctx,
        model: Model::new(),
    }
}

fn expected_type_error(t: Ty, v: &RV) -> EvalexprError {
    let actual = v.to_value();
    match t {
        Ty::Str => EvalexprError::ExpectedString { actual },
        Ty::Float => EvalexprError::ExpectedFloat { actual },
        Ty::Int => EvalexprError::ExpectedInt { actual },
        Ty::Bool => EvalexprError::ExpectedBoolean { actual },
        Ty::Tuple => EvalexprError::ExpectedTuple { actual },
        _ => EvalexprError::ExpectedEmpty { actual },
    }
}

/// Applies `op` to the live context (real + model) and compares the return value. Returns Some(left-behind original)
/// for a clone. `report(rule, expected, observed)`.
pub fn apply(op: &Op, live: &mut Live, report: &mut dyn FnMut(&str, String, String)) -> Option<Live> {
    match op {
        Op::SetValue(k, v) => {
            let got = guard(|| live.ctx.set_value(k.clone(), v.to_value()));
            let exp = live.model.set(k, v.clone());
            match (got, exp) {
                (Err(p), _) => report("panic", "Ok or Err".into(), api::panic_text(&p)),
                (Ok(Ok(())), Ok(())) => {},
                (Ok(Err(e)), Err(t)) => {
                    // "fails with the matching expected-type error" carrying the offered value
                    let want = expected_type_error(t, v);
                    if format!("{:?}", e) != format!("{:?}", want) {
                        report("set_value/wrong-error", format!("{:?}", want), format!("{:?}", e));
                    }
                },
                (Ok(g), e) => report(
                    "set_value/result",
                    match e {
                        Ok(()) => "Ok(())".into(),
                        Err(t) => format!("expected-type error for {:?}", t),
                    },
                    format!("{:?}", g),
                ),
            }
            None
        },
        Op::Expr(src, ast) => {
            let got = api::eval_str_mut(src, &mut live.ctx);
            let mut run = Run::default();
            let mut m = live.model.clone();
            m.mutable = true;
            let exp = eval::eval(ast, &mut m, &mut run);
            if let Err(RErr::Unclaimed(_)) = &exp {
                // both readings accepted (MIN % -1 cannot occur in this domain); keep the model in step with reality
                live.model.vars = api::ctx_vars(&live.ctx).into_iter().collect();
                return None;
            }
            live.model = m;
            let ok = match got.lifted() {
                Some(l) => outcome_matches(&exp, &l),
                None => false,
            };
            if !ok {
                report("expression/result", super::exec::show_ref_result(&exp), got.show());
            }
            // the matching expected-type error for a type-changing assignment
            if let (Err(RErr::Class(ErrClass::Type)), Got::Err(ErrClass::Type, _)) = (&exp, &got) {}
            None
        },
        Op::ClearVars => {
            live.ctx.clear_variables();
            live.model.vars.clear();
            None
        },
        Op::ClearFuns => {
            live.ctx.clear_functions();
            live.model.funs.clear();
            None
        },
        Op::Clear => {
            live.ctx.clear();
            live.model.vars.clear();
            live.model.funs.clear();
            None
        },
        Op::SetFn(f) => {
            let r = live.ctx.set_function(f.clone(), Function::new(|v: &Value| Ok(v.clone())));
            if r.is_err() {
                report("set_function/result", "Ok(())".into(), format!("{:?}", r));
            }
            live.model.funs.insert(f.clone(), FnModel::Identity);
            None
        },
        Op::SetFnConst(f) => {
            let r = live.ctx.set_function(f.clone(), Function::new(|_: &Value| Ok(Value::Int(99))));
            if r.is_err() {
                report("set_function/result", "Ok(())".into(), format!("{:?}", r));
            }
            live.model.funs.insert(f.clone(), FnModel::Const(Value::Int(99)));
            None
        },
        Op::CloneFrom => {
            // the target starts out as different as possible from the source
            let mut target = Ctx::new();
            let _ = target.set_value("a".into(), Value::String("stale".into()));
            let _ = target.set_value("stale_only".into(), Value::Int(1));
            let _ = target.set_function("g".into(), Function::new(|_: &Value| Ok(Value::Int(-1))));
            let _ = target.set_function("stale_fn".into(), Function::new(|v: &Value| Ok(v.clone())));
            let _ = target.set_builtin_functions_disabled(!live.model.builtins_off);
            if let Err(p) = guard(|| target.clone_from(&live.ctx)) {
                report("panic", "clone_from returns".into(), api::panic_text(&p));
                return None;
            }
            let original = std::mem::replace(&mut live.ctx, target);
            Some(Live {
                ctx: original,
                model: live.model.clone(),
            })
        },
        Op::Toggle(b) => {
            let r = live.ctx.set_builtin_functions_disabled(*b);
            if r.is_err() {
                report("toggle/result", "Ok(())".into(), format!("{:?}", r));
            }
            live.model.builtins_off = *b;
            None
        },
        Op::CloneCtx => {
            let clone = match guard(|| live.ctx.clone()) {
                Ok(c) => c,
                Err(p) => {
                    report("panic", "clone returns".into(), api::panic_text(&p));
                    return None;
                },
            };
            let original = std::mem::replace(&mut live.ctx, clone);
            Some(Live {
                ctx: original,
                model: live.model.clone(),
            })
        },
    }
}

/// the complete observable state of a context against its model
pub fn check_state(live: &Live, names: &[&str], report: &mut dyn FnMut(&str, String, String)) {
    let c = &live.ctx;
    let m = &live.model;
    // lookup of every name (and two that were never bound)
    for k in names.iter().copied().chain(["zz", "a ", "stale_only"]) {
        let g = c.get_value(k).map(RV::from_value);
        let e = m.vars.get(k);
        let same = match (&g, e) {
            (None, None) => true,
            (Some(x), Some(y)) => x.same(y),
            _ => false,
        };
        if !same {
            report("state/get_value", format!("{} -> {:?}", k, e.map(|v| v.show())), format!("{} -> {:?}", k, g.map(|v| v.show())));
        }
    }
    // both listings, sorted
    let mut got: Vec<(String, RV)> = c.iter_variables().map(|(k, v)| (k, RV::from_value(&v))).collect();
    got.sort_by(|a, b| a.0.cmp(&b.0));
    let exp: Vec<(String, RV)> = m.vars.iter().map(|(k, v)| (k.clone(), v.clone())).collect();
    let same = got.len() == exp.len() && got.iter().zip(&exp).all(|(a, b)| a.0 == b.0 && a.1.same(&b.1));
    if !same {
        report(
            "state/iter_variables",
            format!("{:?}", exp.iter().map(|(k, v)| format!("{}={}", k, v.show())).collect::<Vec<_>>()),
            format!("{:?}", got.iter().map(|(k, v)| format!("{}={}", k, v.show())).collect::<Vec<_>>()),
        );
    }
    let mut names_got: Vec<String> = c.iter_variable_names().collect();
    names_got.sort();
    let names_exp: Vec<String> = m.vars.keys().cloned().collect();
    if names_got != names_exp {
        report("state/iter_variable_names", format!("{:?}", names_exp), format!("{:?}", names_got));
    }
    // function lookup
    for f in ["f", "g", "h", "typeof", "len", "stale_fn", "a", "b"] {
        let r = c.call_function(f, &Value::Int(7));
        let want = match m.funs.get(f) {
            Some(FnModel::Identity) => Some(7),
            Some(FnModel::Const(_)) => Some(99),
            _ => None,
        };
        let ok = match (&r, want) {
            (Ok(Value::Int(k)), Some(w)) => *k == w,
            (Err(e), None) => classify_err(e) == ErrClass::UnknownFn(f.to_string()),
            _ => false,
        };
        if !ok {
            report("state/call_function", format!("{} {}", f, match want { Some(7) => "defined (identity)", Some(_) => "defined (constant 99)", None => "undefined" }), format!("{:?}", r));
        }
    }
    // builtin switch, directly and by its effect
    if c.are_builtin_functions_disabled() != m.builtins_off {
        report("state/builtin-switch", format!("disabled = {}", m.builtins_off), format!("disabled = {}", c.are_builtin_functions_disabled()));
    }
    // names nobody bound are unknown — also names a library might be tempted to pre-define
    for k in ["PI", "E", "pi", "e", "math::PI", "math::pi", "math::E", "math::e", "math::TAU", "math::SQRT_2", "math::LN_2", "inf", "nan", "NaN", "null", "none", "_"] {
        if m.vars.contains_key(k) {
            continue;
        }
        let g = api::eval_str(k, c);
        if !matches!(&g, Got::Err(ErrClass::UnknownVar(n), _) if n == k) {
            report("state/unbound-name-resolves", format!("{} is an unknown variable", k), g.show());
        }
    }
    // … nor is there any access path into a value through the name of a variable
    for k in m.vars.keys() {
        for probe in [format!("{}.0", k), format!("{}.1", k), format!("{}.0.0", k), format!("{}[0]", k), format!("{}::0", k), format!("{}.len", k), format!("{}'", k)] {
            if m.vars.contains_key(&probe) {
                continue;
            }
            let g = api::eval_str(&probe, c);
            if !matches!(&g, Got::Err(ErrClass::UnknownVar(n), _) if *n == probe) {
                report("state/unbound-name-resolves", format!("{} is an unknown variable", probe), g.show());
            }
        }
    }
    // a user function (identity) named typeof takes precedence; else the builtin unless disabled
    let t = api::eval_str("typeof(1)", c);
    let user = m.funs.contains_key("typeof");
    let ok = match &t {
        Got::Val(RV::Int(1)) => matches!(m.funs.get("typeof"), Some(FnModel::Identity)),
        Got::Val(RV::Int(99)) => matches!(m.funs.get("typeof"), Some(FnModel::Const(_))),
        Got::Val(RV::Str(s)) => s == "int" && !m.builtins_off && !user,
        Got::Err(ErrClass::UnknownFn(n), _) => n == "typeof" && m.builtins_off && !user,
        _ => false,
    };
    if !ok {
        report(
            "state/function-lookup-effect",
            format!("typeof(1) {}", if user { "= 1 (user function)" } else if m.builtins_off { "unknown" } else { "= \"int\"" }),
            t.show(),
        );
    }
}

fn state_key(m: &Model) -> String {
    format!(
        "{}|{}|{}",
        m.show_vars(),
        m.funs.keys().cloned().collect::<Vec<_>>().join(","),
        m.builtins_off
    )
}

/// Replays a history on a fresh real context, checking every step. Returns the live context and the originals left
/// behind by clones; false if something was reported.
fn replay(out: &mut Out, hist: &[Op], names: &[&str], check_every_step: bool) -> (Live, Vec<Live>, bool) {
    let mut live = fresh();
    let mut left: Vec<Live> = Vec::new();
    let mut clean = true;
    for (i, op) in hist.iter().enumerate() {
        let mut reports: Vec<(String, String, String)> = Vec::new();
        {
            let mut rep = |r: &str, e: String, o: String| reports.push((r.to_string(), e, o));
            if let Some(orig) = apply(op, &mut live, &mut rep) {
                left.push(orig);
                if left.len() > 3 {
                    left.remove(0);
                }
            }
            if check_every_step || i + 1 == hist.len() {
                check_state(&live, names, &mut rep);
                for l in &left {
                    check_state(l, names, &mut |r: &str, e: String, o: String| rep(&format!("clone-independence/{}", r), e, o));
                }
            }
        }
        out.eval();
        for (rule, e, o) in reports {
            clean = false;
            out.violation(
                &format!("context/{}", rule),
                format!("history: {}", hist[..=i].iter().map(|o| o.show()).collect::<Vec<_>>().join(" ; ")),
                e,
                o,
            );
        }
        if !clean {
            break;
        }
    }
    (live, left, clean)
}

/// breadth-first exploration of (abstract state, kind of last operation) keys, every operation from every key
struct Bfs {
    ops: Vec<Op>,
    names: Vec<&'static str>,
    keys_per_start: usize,
}

impl Phase for Bfs {
    fn name(&self) -> String {
        format!("bfs over (abstract state, last-op kind) x all {} operations, <= {} keys per first operation", self.ops.len(), self.keys_per_start)
    }
    fn len(&self) -> u64 {
        self.ops.len() as u64
    }
    fn exhaustive(&self) -> bool {
        true
    }
    fn run(&mut self, idx: u64, _r: &mut Rng, out: &mut Out) {
        let first = self.ops[idx as usize].clone();
        out.begin(|| format!("BFS starting with {}", first.show()));
        let mut seen: HashSet<String> = HashSet::new();
        let mut queue: VecDeque<Vec<Op>> = VecDeque::new();
        queue.push_back(vec![first]);
        let mut expanded = 0usize;
        let names = self.names.clone();
        while let Some(hist) = queue.pop_front() {
            let (live, _left, clean) = replay(out, &hist, &names, false);
            if !clean {
                return;
            }
            let key = format!("{}#{}", state_key(&live.model), hist.last().map(|o| o.kind()).unwrap_or(""));
            if !seen.insert(key.clone()) {
                continue;
            }
            out.nontrivial(&key);
            out.seen("abstract context states", &state_key(&live.model));
            expanded += 1;
            out.sample(|| format!("history [{}] reaches {}", hist.iter().map(|o| o.show()).collect::<Vec<_>>().join(" ; "), state_key(&live.model)));
            if expanded > self.keys_per_start {
                break;
            }
            if hist.len() >= 6 {
                continue;
            }
            for op in &self.ops {
                // apply every operation from this key (replayed on a fresh real context each time)
                let mut h = hist.clone();
                h.push(op.clone());
                let (l2, _, clean) = replay(out, &h, &names, false);
                out.count(&format!("transitions by {}", op.kind()));
                if !clean {
                    return;
                }
                let k2 = format!("{}#{}", state_key(&l2.model), op.kind());
                if !seen.contains(&k2) {
                    queue.push_back(h);
                }
            }
        }
    }
}

/// long random histories over a larger domain with up to four live contexts
struct Histories {
    n: u64,
}

impl Phase for Histories {
    fn name(&self) -> String {
        "random histories 50-300 steps, 5 names, up to 4 live clones".into()
    }
    fn len(&self) -> u64 {
        self.n
    }
    fn run(&mut self, idx: u64, r: &mut Rng, out: &mut Out) {
        // (among the twenty: names other languages reserve or pre-define, and names differing only by zero padding or case)
        let all_names = ["a", "b", "c", "_", "math::pi", "f1", "g2", "min", "x1", "x01", "X1", "l7", "math::e", "n9", "self", "len", "q12", "é", "e\u{301}", "if"];
        let names = if idx % 3 == 0 { &all_names[..] } else { &all_names[..5] };
        let steps = r.range(50, 300);
        out.begin(|| format!("random history #{} of {} steps", idx, steps));
        let mut lives: Vec<Live> = vec![fresh_kind(idx / 3)];
        let mut hist: Vec<String> = Vec::new();
        let pool = crate::gen::full_pool();
        let lit_pool: Vec<RV> = pool.iter().filter(|v| v.literal().is_some()).cloned().collect();
        let assign_ops = ["=", "=", "=", "+=", "-=", "*=", "/=", "%=", "^=", "&&=", "||="];
        for _ in 0..steps {
            let which = r.below(lives.len());
            let k = *r.pick(names);
            let op = match r.below(20) {
                0..=4 => Op::SetValue(k.to_string(), if r.chance(1, 2) { r.pick(&domain_values()).clone() } else { r.pick(&pool).clone() }),
                5..=11 => {
                    let v = r.pick(&lit_pool).clone();
                    let src = if r.chance(1, 6) {
                        format!("{} {} {}", k, r.pick(&assign_ops), r.pick(names))
                    } else {
                        format!("{} {} {}", k, r.pick(&assign_ops), v.literal().unwrap())
                    };
                    expr_op(&src)
                },
                12 => expr_op(k),
                13 => Op::ClearVars,
                14 => Op::ClearFuns,
                15 => Op::Clear,
                16 => {
                    if r.chance(1, 2) {
                        Op::SetFn(r.pick(&["f", "g"]).to_string())
                    } else {
                        Op::SetFnConst(r.pick(&["f", "g"]).to_string())
                    }
                },
                17 => Op::Toggle(r.chance(1, 2)),
                18 => Op::CloneFrom,
                _ => Op::CloneCtx,
            };
            hist.push(format!("[{}] {}", which, op.show()));
            let mut reports: Vec<(String, String, String)> = Vec::new();
            {
                let mut rep = |ru: &str, e: String, o: String| reports.push((ru.to_string(), e, o));
                if let Some(orig) = apply(&op, &mut lives[which], &mut rep) {
                    if lives.len() < 4 {
                        lives.push(orig);
                    }
                }
                for l in &lives {
                    check_state(l, names, &mut rep);
                }
            }
            out.eval();
            out.count(&format!("steps by {}", op.kind()));
            if !reports.is_empty() {
                let tail: Vec<String> = hist.iter().rev().take(12).rev().cloned().collect();
                for (rule, e, o) in reports.into_iter().take(2) {
                    out.violation(&format!("context/{}", rule), format!("…{}", tail.join(" ; ")), e, o);
                }
                return;
            }
        }
        out.nontrivial(&format!("history {}", hist.join(";")));
        out.sample(|| format!("{} steps, e.g. {}", steps, hist.iter().take(6).cloned().collect::<Vec<_>>().join(" ; ")));
    }
}

/// many names: dozens to hundreds of variables and functions in one context, then type-changing assignments,
/// clears and re-use (whatever a context does differently once it is large, or once it has been large)
struct ManyNames {
    n: u64,
}

impl Phase for ManyNames {
    fn name(&self) -> String {
        "contexts with 10-300 variables and 10-200 functions".into()
    }
    fn len(&self) -> u64 {
        self.n
    }
    fn run(&mut self, idx: u64, r: &mut Rng, out: &mut Out) {
        let nv = r.range(10, 300);
        let nf = r.range(10, 200);
        out.begin(|| format!("many-names history #{} ({} variables, {} functions)", idx, nv, nf));
        let mut live = fresh();
        let vals = domain_values();
        let mut hist: Vec<String> = Vec::new();
        let mut bad: Option<(String, String, String)> = None;
        let mut step = |op: Op, live: &mut Live, hist: &mut Vec<String>, bad: &mut Option<(String, String, String)>| {
            hist.push(op.show());
            let mut rep = |ru: &str, e: String, o: String| {
                if bad.is_none() {
                    *bad = Some((ru.to_string(), e, o));
                }
            };
            let _ = apply(&op, live, &mut rep);
        };
        for i in 0..nv {
            step(Op::SetValue(format!("v{}", i), vals[i % vals.len()].clone()), &mut live, &mut hist, &mut bad);
        }
        for i in 0..nf {
            step(if i % 2 == 0 { Op::SetFn(format!("fn{}", i)) } else { Op::SetFnConst(format!("fn{}", i)) }, &mut live, &mut hist, &mut bad);
        }
        // type-changing and same-type assignments on a large context, through the API and through expressions
        for _ in 0..30 {
            let k = format!("v{}", r.below(nv));
            let v = r.pick(&vals).clone();
            if r.chance(1, 2) {
                step(Op::SetValue(k, v), &mut live, &mut hist, &mut bad);
            } else if let Some(l) = v.literal() {
                step(expr_op(&format!("{} {} {}", k, r.pick(&["=", "+=", "*=", "&&="]), l)), &mut live, &mut hist, &mut bad);
            }
        }
        let tail = match r.below(4) {
            0 => Op::ClearFuns,
            1 => Op::ClearVars,
            2 => Op::Clear,
            _ => Op::CloneCtx,
        };
        step(tail, &mut live, &mut hist, &mut bad);
        // and the context is used again afterwards
        for i in 0..12 {
            step(Op::SetValue(format!("v{}", i), vals[(i + 3) % vals.len()].clone()), &mut live, &mut hist, &mut bad);
            step(Op::SetValue(format!("v{}", i), vals[(i + 4) % vals.len()].clone()), &mut live, &mut hist, &mut bad);
        }
        step(Op::SetFn("fn0".into()), &mut live, &mut hist, &mut bad);
        step(Op::ClearFuns, &mut live, &mut hist, &mut bad);
        out.evals(hist.len() as u64);
        // complete state: every variable and function name ever used
        let names: Vec<String> = (0..nv).map(|i| format!("v{}", i)).collect();
        let name_refs: Vec<&str> = names.iter().map(|s| s.as_str()).collect();
        {
            let mut rep = |ru: &str, e: String, o: String| {
                if bad.is_none() {
                    bad = Some((ru.to_string(), e, o));
                }
            };
            check_state(&live, &name_refs, &mut rep);
            for i in 0..nf {
                let f = format!("fn{}", i);
                let r2 = live.ctx.call_function(&f, &Value::Int(7));
                let has = live.model.funs.contains_key(&f);
                if r2.is_ok() != has {
                    rep("state/call_function", format!("{} {}", f, if has { "defined" } else { "undefined" }), format!("{:?}", r2));
                }
            }
        }
        out.nontrivial(&format!("many {} {} {}", nv, nf, idx));
        if let Some((rule, e, o)) = bad {
            let shown: Vec<String> = hist.iter().rev().take(10).rev().cloned().collect();
            out.violation(&format!("context/{}", rule), format!("{} variables, {} functions bound, then …{}", nv, nf, shown.join(" ; ")), e, o);
        }
        out.sample(|| format!("{} variables and {} functions, {} steps, state equals the model", nv, nf, hist.len()));
    }
}

/// a user function that owns state by value (a counter): a clone of the context gets its own copy of the function and
/// of its state, like of everything else in the context
#[derive(Default)]
struct Counter(std::sync::atomic::AtomicI64);

impl Clone for Counter {
    fn clone(&self) -> Self {
        Counter(std::sync::atomic::AtomicI64::new(self.0.load(std::sync::atomic::Ordering::SeqCst)))
    }
}

struct StatefulFunctions {
    n: u64,
}

impl Phase for StatefulFunctions {
    fn name(&self) -> String {
        "stateful user functions across clones".into()
    }
    fn len(&self) -> u64 {
        self.n
    }
    fn run(&mut self, idx: u64, r: &mut Rng, out: &mut Out) {
        out.begin(|| format!("stateful function history #{}", idx));
        let counter = Counter::default();
        let mut ctxs: Vec<(Ctx, i64)> = Vec::new();
        let mut c = Ctx::new();
        let _ = c.set_function(
            "next".into(),
            evalexpr::Function::new(move |_| {
                // (the whole Counter is captured, so that cloning the function clones the counter)
                let whole: &Counter = &counter;
                Ok(Value::Int(whole.0.fetch_add(1, std::sync::atomic::Ordering::SeqCst) + 1))
            }),
        );
        ctxs.push((c, 0));
        let mut hist: Vec<String> = Vec::new();
        for _ in 0..r.range(5, 40) {
            let k = r.below(ctxs.len());
            match r.below(6) {
                0 if ctxs.len() < 5 => {
                    let cl = (ctxs[k].0.clone(), ctxs[k].1);
                    hist.push(format!("[{}] = [{}].clone()", ctxs.len(), k));
                    ctxs.push(cl);
                },
                1 if ctxs.len() >= 2 => {
                    let j = r.below(ctxs.len());
                    if j != k {
                        let (src, n) = (ctxs[k].0.clone(), ctxs[k].1);
                        ctxs[j].0.clone_from(&src);
                        ctxs[j].1 = n;
                        hist.push(format!("[{}].clone_from([{}])", j, k));
                    }
                },
                _ => {
                    let via_expr = r.chance(1, 2);
                    let got = if via_expr { api::eval_str("next()", &ctxs[k].0).show() } else { format!("{:?}", ctxs[k].0.call_function("next", &Value::Empty)) };
                    ctxs[k].1 += 1;
                    out.eval();
                    hist.push(format!("[{}].next()", k));
                    let want = ctxs[k].1;
                    if !got.contains(&format!("{}", want)) || got.contains("Err") {
                        out.violation(
                            "context/clone/function-state-shared",
                            hist.join(" ; "),
                            format!("{} (each context counts its own calls since it was cloned)", want),
                            got,
                        );
                        return;
                    }
                },
            }
        }
        out.nontrivial(&format!("stateful {}", idx));
        out.sample(|| format!("{} steps over {} contexts: every clone keeps its own function state", hist.len(), ctxs.len()));
    }
}

/// one context with several hundred thousand distinct names (and tens of thousands of functions): every name keeps its
/// own value. Enough names for a few collisions in any 32-bit digest of the name; plus word pairs known to collide
/// under the common string hashes (FNV-1a, djb2, Java hashCode, CRC-32).
struct HugeContext {
    n: u64,
    names: usize,
}

const COLLIDING_WORDS: [&str; 30] = [
    "costarring", "liquid", "declinate", "macallums", "altarage", "zinke", "altarages", "zinkes", "Aa", "BB", "AaAa", "BBBB", "AaBB", "BBAa",
    "hetairas", "mentioner", "heliotropes", "neurospora", "depravement", "serafins", "stylist", "subgenera", "joyful", "synaphea",
    "plumless", "buckeroo", "codding", "gnu", "exhibiters", "schlager",
];

impl Phase for HugeContext {
    fn name(&self) -> String {
        format!("one context with {} distinct names", self.names)
    }
    fn len(&self) -> u64 {
        self.n
    }
    fn run(&mut self, idx: u64, r: &mut Rng, out: &mut Out) {
        out.begin(|| format!("huge context #{}", idx));
        let mut names: Vec<String> = COLLIDING_WORDS.iter().map(|s| s.to_string()).collect();
        let mut seen: std::collections::HashSet<String> = names.iter().cloned().collect();
        let letters: Vec<char> = "abcdefghijklmnopqrstuvwxyz".chars().collect();
        while names.len() < self.names {
            let i = names.len();
            let w = match r.below(5) {
                0 => format!("v{}", i),
                1 => format!("ns{}::k{}", i % 7, r.next() % 1_000_000),
                2 => format!("{}{}", r.pick(&["é", "日", "λ", "x'", "#"]), r.next() % 10_000_000),
                _ => {
                    let n = r.range(3, 10);
                    (0..n).map(|_| *r.pick(&letters)).collect()
                },
            };
            if seen.insert(w.clone()) {
                names.push(w);
            }
        }
        let mut c = Ctx::new();
        for (i, n) in names.iter().enumerate() {
            let _ = c.set_value(n.clone(), Value::Int(i as i64));
        }
        let nf = names.len() / 8;
        for (i, n) in names.iter().take(nf).enumerate() {
            let k = i as i64;
            let _ = c.set_function(n.clone(), evalexpr::Function::new(move |_| Ok(Value::Int(-k))));
        }
        out.evals((names.len() + nf) as u64);
        let mut wrong = 0u64;
        let mut first: Option<(String, String, String)> = None;
        for (i, n) in names.iter().enumerate() {
            let got = c.get_value(n);
            if got != Some(&Value::Int(i as i64)) {
                wrong += 1;
                if first.is_none() {
                    let other = match got {
                        Some(Value::Int(j)) => names.get(*j as usize).cloned().unwrap_or_default(),
                        _ => String::new(),
                    };
                    first = Some((format!("get_value({:?}) after set_value of {} distinct names (it was set to {})", n, names.len(), i), format!("Some(Int({}))", i), format!("{:?} (the value of {:?})", got, other)));
                }
            }
        }
        for (i, n) in names.iter().take(nf).enumerate() {
            let got = c.call_function(n, &Value::Empty);
            if got != Ok(Value::Int(-(i as i64))) {
                wrong += 1;
                if first.is_none() {
                    first = Some((format!("call_function({:?}) after set_function of {} distinct names", n, nf), format!("Ok(Int({}))", -(i as i64)), format!("{:?}", got)));
                }
            }
        }
        let listed = c.iter_variables().count();
        if listed != names.len() && first.is_none() {
            first = Some((format!("iter_variables().count() after set_value of {} distinct names", names.len()), names.len().to_string(), listed.to_string()));
        }
        out.evals((names.len() + nf) as u64);
        out.nontrivial(&format!("huge {}", idx));
        out.count_n("names held in one context, each read back", names.len() as u64);
        if let Some((i, e, o)) = first {
            out.violation("context/state/names-interfere", i, e, format!("{} ({} names wrong)", o, wrong));
        }
        out.sample(|| format!("{} variables and {} functions in one context, each reads back its own value", names.len(), nf));
    }
}

/// contexts built by the two macros are ordinary contexts: same observable state as the model built by hand, and
/// every operation continues to behave from there
struct MacroBuilt {
    ops: Vec<Op>,
}

impl Phase for MacroBuilt {
    fn name(&self) -> String {
        "contexts built by context_map! / math_consts_context! x every operation".into()
    }
    fn len(&self) -> u64 {
        3 * self.ops.len() as u64
    }
    fn exhaustive(&self) -> bool {
        true
    }
    fn run(&mut self, idx: u64, _r: &mut Rng, out: &mut Out) {
        use evalexpr::{context_map, math_consts_context};
        let which = idx as usize / self.ops.len();
        let op = self.ops[idx as usize % self.ops.len()].clone();
        out.begin(|| format!("macro-built context #{} then {}", which, op.show()));
        let mut model = Model::new();
        let built: Result<Ctx, EvalexprError> = match which {
            0 => {
                model.vars.insert("a".into(), RV::Int(5));
                model.vars.insert("b".into(), RV::Float(2.5));
                model.vars.insert("s".into(), RV::Str("str".into()));
                model.vars.insert("t".into(), RV::Bool(true));
                model.funs.insert("f".into(), FnModel::Identity);
                context_map! {
                    "a" => int 5,
                    "b" => float 2.5,
                    "s" => "str",
                    "t" => true,
                    "f" => Function::new(|v| Ok(v.clone())),
                }
            },
            1 => {
                // a type-changing rebinding inside the macro is an error, like anywhere else
                let r: Result<Ctx, EvalexprError> = context_map! { "a" => int 1, "a" => float 2.0 };
                if r.is_ok() {
                    out.violation("context/context_map", "context_map! { \"a\" => int 1, \"a\" => float 2.0 }".into(), "an expected-type error".into(), "Ok(context)".into());
                }
                // a repeated key: entries are applied in order, the last one wins
                model.vars.insert("a".into(), RV::Int(3));
                model.vars.insert("b".into(), RV::Int(2));
                context_map! { "a" => int 1, "b" => int 2, "a" => int 3 }
            },
            _ => {
                for (k, v) in [
                    ("PI", std::f64::consts::PI),
                    ("TAU", std::f64::consts::TAU),
                    ("E", std::f64::consts::E),
                    ("SQRT_2", std::f64::consts::SQRT_2),
                    ("LN_2", std::f64::consts::LN_2),
                    ("LN_10", std::f64::consts::LN_10),
                    ("FRAC_PI_2", std::f64::consts::FRAC_PI_2),
                    ("FRAC_PI_3", std::f64::consts::FRAC_PI_3),
                    ("FRAC_PI_4", std::f64::consts::FRAC_PI_4),
                    ("FRAC_PI_6", std::f64::consts::FRAC_PI_6),
                    ("FRAC_PI_8", std::f64::consts::FRAC_PI_8),
                    ("FRAC_1_PI", std::f64::consts::FRAC_1_PI),
                    ("FRAC_2_PI", std::f64::consts::FRAC_2_PI),
                    ("FRAC_2_SQRT_PI", std::f64::consts::FRAC_2_SQRT_PI),
                    ("FRAC_1_SQRT_2", std::f64::consts::FRAC_1_SQRT_2),
                    ("LOG2_10", std::f64::consts::LOG2_10),
                    ("LOG2_E", std::f64::consts::LOG2_E),
                    ("LOG10_2", std::f64::consts::LOG10_2),
                    ("LOG10_E", std::f64::consts::LOG10_E),
                ] {
                    model.vars.insert(k.to_string(), RV::Float(v));
                }
                math_consts_context!()
            },
        };
        let ctx = match built {
            Ok(c) => c,
            Err(e) => {
                out.violation("context/macro-failed", format!("macro-built context #{}", which), "Ok(context)".into(), format!("{:?}", e));
                return;
            },
        };
        let mut live = Live { ctx, model };
        let names = ["a", "b", "s", "t", "PI", "E", "LN_2"];
        let mut reports: Vec<(String, String, String)> = Vec::new();
        {
            let mut rep = |ru: &str, e: String, o: String| reports.push((ru.to_string(), e, o));
            check_state(&live, &names, &mut rep);
            let _ = apply(&op, &mut live, &mut rep);
            check_state(&live, &names, &mut rep);
        }
        out.evals(3);
        out.nontrivial(&format!("macro {} {}", which, op.show()));
        for (rule, e, o) in reports.into_iter().take(2) {
            out.violation(&format!("context/{}", rule), format!("context built by {} then {}", ["context_map!", "context_map! (ints)", "math_consts_context!"][which], op.show()), e, o);
        }
    }
}

pub fn selfcheck() -> Result<String, String> {
    // the README's type-safety history through the model
    let mut m = Model::new();
    let a = |m: &mut Model, k: &str, v: RV| m.set(k, v);
    if a(&mut m, "a", RV::Int(5)).is_err() || a(&mut m, "a", RV::Float(5.0)) != Err(Ty::Int) || a(&mut m, "a", RV::Int(10)).is_err() {
        return Err("context model does not replay the README type-safety history".into());
    }
    if !m.vars.get("a").map_or(false, |v| v.same(&RV::Int(10))) {
        return Err("context model lost the last assigned value".into());
    }
    let ops = all_ops(&["a", "b"]);
    Ok(format!("context model replays the README history; {} operations in the BFS alphabet", ops.len()))
}

pub fn phases(cfg: &Cfg) -> Vec<Box<dyn Phase>> {
    vec![
        Box::new(Bfs {
            ops: all_ops(&["a", "b"]),
            names: vec!["a", "b"],
            keys_per_start: if cfg.thorough { 220 } else { 40 },
        }),
        Box::new(Histories {
            n: cfg.n(6_000, 400_000),
        }),
        Box::new(ManyNames {
            n: cfg.n(400, 40_000),
        }),
        Box::new(MacroBuilt {
            ops: all_ops(&["a", "b"]),
        }),
        Box::new(StatefulFunctions {
            n: cfg.n(3_000, 100_000),
        }),
        Box::new(HugeContext {
            n: cfg.n(16, 64),
            names: if cfg.thorough { 1_000_000 } else { 300_000 },
        }),
    ]
}

//! C10 — builtin functions compute what the documentation says.

use crate::api::{self, Built, Ctx, Got};
use crate::fw::{Cfg, Out, Phase};
use crate::gen;
use crate::refmodel::builtins::{reference, Exp, BUILTINS};
use crate::refmodel::errs::ErrClass;
use crate::refmodel::value::RV;
use crate::rng::Rng;
use evalexpr::{ContextWithMutableVariables, EmptyContextWithBuiltinFunctions, Node};

pub const NON_BUILTINS: [&str; 18] = [
    "foo", "math::nope", "Typeof", "random", "str::regex_matches", "str::regex_replace",
    // aliases under another namespace must be unknown
    "math::floor", "math::round", "math::ceil", "math::min", "math::max", "math::if", "math::len", "str::len", "sqrt", "abs", "trim", "from",
];

pub fn names() -> Vec<&'static str> {
    let mut v: Vec<&'static str> = BUILTINS.to_vec();
    v.extend(NON_BUILTINS);
    v
}

pub fn call_trees(names: &[&'static str]) -> Vec<Option<Node>> {
    names
        .iter()
        .map(|n| match api::build(&format!("{}(x)", n)) {
            Built::Tree(t) => Some(t),
            _ => None,
        })
        .collect()
}

/// the argument values of the matrix: Empty, v, (v,w), (u,v,w)
pub fn arg_values(pool2: &[RV], pool3: &[RV]) -> Vec<RV> {
    let mut v = vec![RV::Empty];
    v.extend(pool2.iter().cloned());
    for a in pool2 {
        for b in pool2 {
            v.push(RV::Tuple(vec![a.clone(), b.clone()]));
        }
    }
    for a in pool3 {
        for b in pool3 {
            for c in pool3 {
                v.push(RV::Tuple(vec![a.clone(), b.clone(), c.clone()]));
            }
        }
    }
    v
}

fn lifted(got: &Got) -> Option<Result<RV, ()>> {
    match got {
        Got::Val(v) => Some(Ok(v.clone())),
        Got::Err(..) => Some(Err(())),
        Got::Panic(_) => None,
    }
}

pub fn check_call(out: &mut Out, name: &str, tree: &Option<Node>, arg: &RV, routes: bool) {
    let key = format!("{}({})", name, arg.show());
    out.begin(|| key.clone());
    let tree = match tree {
        Some(t) => t,
        None => {
            out.violation("builtin/precompile", format!("{}(x)", name), "precompiles".into(), "build_operator_tree failed".into());
            return;
        },
    };
    let mut c = Ctx::new();
    c.set_value("x".into(), arg.to_value()).unwrap();
    let got = api::eval_tree(tree, &c);
    out.eval();
    let exp = reference(name, arg);
    match &exp {
        None => {
            // not a builtin: must be reported as an unknown function of that name
            out.count("non-builtin name");
            if !matches!(&got, Got::Err(ErrClass::UnknownFn(n), _) if n == name) {
                out.violation("builtin/unknown-name", key.clone(), format!("unknown function {}", name), got.show());
            }
        },
        Some(e) => {
            if matches!(e, Exp::Any) {
                out.count("unclaimed (documentation silent)");
            } else {
                out.nontrivial(&key);
                out.count(&format!("fn {}", name));
            }
            out.sample(|| format!("{}  =>  {}", key, got.show()));
            let ok = match lifted(&got) {
                Some(g) => {
                    // an "error" expectation is not satisfied by the function being reported as unknown
                    let unknown = matches!(&got, Got::Err(ErrClass::UnknownFn(_), _));
                    e.accepts(&g) && !unknown
                },
                None => false,
            };
            if !ok {
                out.violation(&format!("builtin/{}", name), key.clone(), e.show(), got.show());
            }
            // one rendering of a value: str::from of a non-string is the Display of the value (src/value/display.rs),
            // alone and as an element of a tuple
            if let (true, Got::Val(RV::Str(s))) = (name == "str::from" && !matches!(arg, RV::Str(_)), &got) {
                let shown = arg.to_value().to_string();
                if *s != shown {
                    out.violation("builtin/str::from-vs-display", key.clone(), format!("{:?}, the Display of the value", shown), format!("{:?}", s));
                }
                if matches!(arg, RV::Int(_) | RV::Float(_) | RV::Bool(_)) {
                    let g = api::eval_str("str::from((x, 1))", &c);
                    out.eval();
                    let want = format!("({}, 1)", s);
                    if !matches!(&g, Got::Val(RV::Str(t)) if *t == want) {
                        out.violation("builtin/str::from-compositional", format!("str::from(({}, 1))", arg.show()), format!("{:?}: the element rendered as str::from renders it alone", want), g.show());
                    }
                }
                out.count("str::from renderings compared with Display and inside a tuple");
            }
            match &got {
                Got::Val(v) => out.seen("outcome classes", &format!("{} -> {:?}", name, v.ty())),
                Got::Err(..) => out.seen("outcome classes", &format!("{} -> error", name)),
                Got::Panic(_) => {},
            }
        },
    }
    if routes {
        // other routes to the same call must agree with the first one: `name x`, literal source, builtin-only context
        let c2 = EmptyContextWithBuiltinFunctions::<evalexpr::DefaultNumericTypes>::default();
        if let Some(l) = arg.literal() {
            let src = format!("{}({})", name, l);
            let g2 = api::eval_str(&src, &c2);
            out.eval();
            let same = match (&got, &g2) {
                (Got::Val(a), Got::Val(b)) => a.same(b),
                (Got::Err(a, _), Got::Err(b, _)) => a == b,
                _ => false,
            };
            if !same {
                out.violation(
                    "builtin/route-literal",
                    src,
                    format!("same as {} with x bound: {}", key, got.show()),
                    g2.show(),
                );
            }
            if !l.starts_with('(') {
                let src = format!("{} {}", name, l);
                let g3 = api::eval_str(&src, &c2);
                out.eval();
                let same = match (&got, &g3) {
                    (Got::Val(a), Got::Val(b)) => a.same(b),
                    (Got::Err(a, _), Got::Err(b, _)) => a == b,
                    _ => false,
                };
                if !same {
                    out.violation("builtin/route-juxtaposed", src, format!("same as {}: {}", key, got.show()), g3.show());
                }
            }
        }
    }
}

struct MatrixPhase {
    names: Vec<&'static str>,
    trees: Vec<Option<Node>>,
    args: Vec<RV>,
}

impl Phase for MatrixPhase {
    fn name(&self) -> String {
        "builtin-matrix".into()
    }
    fn len(&self) -> u64 {
        (self.names.len() * self.args.len()) as u64
    }
    fn exhaustive(&self) -> bool {
        true
    }
    fn run(&mut self, idx: u64, _r: &mut Rng, out: &mut Out) {
        let ni = (idx as usize) % self.names.len();
        let ai = (idx as usize) / self.names.len();
        let arg = self.args[ai].clone();
        check_call(out, self.names[ni], &self.trees[ni], &arg, ai < 2000);
    }
}

struct RandomArgs {
    n: u64,
    names: Vec<&'static str>,
    trees: Vec<Option<Node>>,
}

fn type_directed_arg(r: &mut Rng, name: &str) -> RV {
    // arguments of the documented shape, so that the value paths (not only the error paths) are exercised
    let num = |r: &mut Rng| match r.below(6) {
        // close to the points where series expansions, argument reductions and special cases switch over
        4 | 5 => {
            if r.chance(1, 4) {
                // where exp / sinh / cosh / exp2 / pow leave the finite range or enter the subnormals: 700 … 720, 1020 … 1030,
                // -750 … -700, -1080 … -1020
                let (lo, hi) = *r.pick(&[(700.0f64, 720.0f64), (-720.0, -700.0), (-750.0, -740.0), (1020.0, 1030.0), (-1080.0, -1020.0), (88.0, 90.0), (36.0, 38.0)]);
                return RV::Float(lo + (hi - lo) * (r.below(100_001) as f64 / 100_000.0));
            }
            let center = *r.pick(&[1.0f64, -1.0, 0.0, 0.5, 2.0, 10.0, std::f64::consts::E, std::f64::consts::FRAC_PI_2, std::f64::consts::PI, 0.25, 4.0, 1024.0, 709.0, -745.0]);
            let width = *r.pick(&[0.25f64, 0.125, 1e-3, 1e-6, 1e-9]);
            RV::Float(center + width * ((r.below(20001) as f64 - 10000.0) / 10000.0))
        },
        0 => RV::Int(r.int_bitlen()),
        1 => RV::Float(r.float_bits()),
        2 => RV::Float((r.below(2001) as f64 - 1000.0) / 8.0),
        _ => RV::Int(r.below(200) as i64 - 100),
    };
    match name {
        "math::log" | "math::pow" | "math::atan2" | "math::hypot" => RV::Tuple(vec![num(r), num(r)]),
        "min" | "max" => {
            let n = r.range(1, 5);
            RV::Tuple((0..n).map(|_| num(r)).collect())
        },
        "if" => RV::Tuple(vec![RV::Bool(r.chance(1, 2)), gen::random_value(r, 1), gen::random_value(r, 1)]),
        "contains" => {
            let n = r.below(5);
            let h: Vec<RV> = (0..n).map(|_| gen::random_value(r, 0)).collect();
            let needle = if !h.is_empty() && r.chance(1, 2) { h[r.below(h.len())].clone() } else { gen::random_value(r, 0) };
            RV::Tuple(vec![RV::Tuple(h), needle])
        },
        "contains_any" => {
            let n = r.below(5);
            let h: Vec<RV> = (0..n).map(|_| gen::random_value(r, 0)).collect();
            let m = r.below(4);
            // needles: hits, misses, and now and then an element of a type the function must reject — also after a hit
            let ns: Vec<RV> = (0..m)
                .map(|_| {
                    if !h.is_empty() && r.chance(1, 3) {
                        h[r.below(h.len())].clone()
                    } else {
                        let d = if r.chance(1, 4) { 1 } else { 0 };
                        gen::random_value(r, d)
                    }
                })
                .collect();
            RV::Tuple(vec![RV::Tuple(h), RV::Tuple(ns)])
        },
        "len" | "str::to_lowercase" | "str::to_uppercase" | "str::trim" => {
            if r.chance(1, 4) {
                gen::random_value(r, 2)
            } else {
                RV::Str(gen::random_string(r, 12))
            }
        },
        "str::from" | "typeof" => gen::random_value(r, 2),
        "str::substring" => {
            let s = gen::random_string(r, 10);
            let n = s.len() as i64;
            let a = r.below(n as usize + 3) as i64 - 1;
            let b = r.below(n as usize + 3) as i64 - 1;
            if r.chance(1, 3) {
                RV::Tuple(vec![RV::Str(s), RV::Int(a)])
            } else {
                RV::Tuple(vec![RV::Str(s), RV::Int(a.min(b)), RV::Int(a.max(b))])
            }
        },
        "bitand" | "bitor" | "bitxor" => RV::Tuple(vec![RV::Int(r.int_bitlen()), RV::Int(r.int_bitlen())]),
        "bitnot" => RV::Int(r.int_bitlen()),
        "shl" | "shr" => RV::Tuple(vec![RV::Int(r.int_bitlen()), RV::Int(r.below(70) as i64 - 3)]),
        _ => num(r),
    }
}

impl Phase for RandomArgs {
    fn name(&self) -> String {
        "random-arguments".into()
    }
    fn len(&self) -> u64 {
        self.n
    }
    fn run(&mut self, _idx: u64, r: &mut Rng, out: &mut Out) {
        let ni = r.below(self.names.len());
        let name = self.names[ni];
        let arg = if r.chance(3, 4) {
            type_directed_arg(r, name)
        } else {
            match r.below(4) {
                0 => gen::random_value(r, 2),
                1 => RV::Tuple(vec![gen::random_value(r, 1), gen::random_value(r, 1)]),
                2 => RV::Tuple(vec![gen::random_value(r, 1), gen::random_value(r, 1), gen::random_value(r, 1)]),
                _ => RV::Empty,
            }
        };
        check_call(out, name, &self.trees[ni], &arg, r.chance(1, 4));
    }
}

/// One argument of a two-argument math function pinned to a value a fast path may key on (2, 10, e, 0.5, powers of two, …,
/// as integer and as float), the other drawn at random with a full mantissa: a shortcut through exp2 / log10 / sqrt agrees
/// with the general function on almost all arguments and differs in the last bit on a few in a thousand.
struct PinnedArgument {
    per_combo: u64,
    names: Vec<&'static str>,
    trees: Vec<Option<Node>>,
}

const PINNED_FNS: [&str; 4] = ["math::pow", "math::log", "math::atan2", "math::hypot"];

fn pinned_values() -> Vec<RV> {
    let mut v = Vec::new();
    for x in [2.0f64, 10.0, std::f64::consts::E, 0.5, 4.0, 8.0, 16.0, 3.0, 1.0, -1.0, 0.0, -2.0, 0.25, 100.0, 1.0 / 3.0] {
        v.push(RV::Float(x));
        if x.fract() == 0.0 {
            v.push(RV::Int(x as i64));
        }
    }
    v
}

impl Phase for PinnedArgument {
    fn name(&self) -> String {
        "two-argument math functions with one argument pinned to a special value, the other random".into()
    }
    fn len(&self) -> u64 {
        PINNED_FNS.len() as u64 * 2 * pinned_values().len() as u64 * self.per_combo
    }
    fn run(&mut self, idx: u64, r: &mut Rng, out: &mut Out) {
        let pins = pinned_values();
        let combo = idx / self.per_combo;
        let f = PINNED_FNS[(combo % PINNED_FNS.len() as u64) as usize];
        let side = (combo / PINNED_FNS.len() as u64) % 2;
        let pin = pins[((combo / (PINNED_FNS.len() as u64 * 2)) as usize) % pins.len()].clone();
        // full 53-bit mantissa, magnitude 2^-10 .. 2^10, either sign (mostly positive: logarithms and fractional powers)
        let m = (r.next() >> 11) as f64 / (1u64 << 53) as f64 + 1.0;
        let e = r.below(21) as i32 - 10;
        let x = m * (2.0f64).powi(e) * if r.chance(1, 5) { -1.0 } else { 1.0 };
        let other = RV::Float(x);
        let arg = if side == 0 { RV::Tuple(vec![pin, other]) } else { RV::Tuple(vec![other, pin]) };
        let ni = match self.names.iter().position(|n| *n == f) {
            Some(i) => i,
            None => return,
        };
        out.count("pinned-argument calls");
        check_call(out, f, &self.trees[ni], &arg, false);
    }
}

/// every builtin on every whole number from -1100 to 1100 (as integer and as float; alone and paired with 2, 10 and
/// 0.5): the exponent range of a double, shift amounts, small powers — whatever a fast path may key on
struct IntSweep {
    names: Vec<&'static str>,
    trees: Vec<Option<Node>>,
}

const SWEEP_LO: i64 = -1100;
const SWEEP_N: u64 = 2201;

impl Phase for IntSweep {
    fn name(&self) -> String {
        "whole-numbers -1100..1100".into()
    }
    fn len(&self) -> u64 {
        self.names.len() as u64 * SWEEP_N
    }
    fn exhaustive(&self) -> bool {
        true
    }
    fn run(&mut self, idx: u64, _r: &mut Rng, out: &mut Out) {
        let ni = (idx / SWEEP_N) as usize;
        let k = SWEEP_LO + (idx % SWEEP_N) as i64;
        let name = self.names[ni];
        let tree = &self.trees[ni];
        check_call(out, name, tree, &RV::Int(k), false);
        check_call(out, name, tree, &RV::Float(k as f64), false);
        for other in [RV::Int(2), RV::Int(10), RV::Float(0.5)] {
            check_call(out, name, tree, &RV::Tuple(vec![other.clone(), RV::Int(k)]), false);
            check_call(out, name, tree, &RV::Tuple(vec![RV::Float(k as f64), other]), false);
        }
    }
}

/// every builtin with every number of arguments 0..=10 and the boundary sizes, all of one kind (true, 1, 2.5, "a") or
/// a boolean followed by integers: fixed-arity builtins reject all but their own arity, whatever the count's parity
struct ArgumentCounts {
    names: Vec<&'static str>,
    trees: Vec<Option<Node>>,
}

const COUNTS: [usize; 19] = [0, 1, 2, 3, 4, 5, 6, 7, 8, 9, 10, 15, 16, 17, 31, 32, 33, 255, 256];

impl Phase for ArgumentCounts {
    fn name(&self) -> String {
        "argument counts 0..10 and boundary sizes x 5 fillings".into()
    }
    fn len(&self) -> u64 {
        (self.names.len() * COUNTS.len() * 5) as u64
    }
    fn exhaustive(&self) -> bool {
        true
    }
    fn run(&mut self, idx: u64, _r: &mut Rng, out: &mut Out) {
        let mut i = idx as usize;
        let fill = i % 5;
        i /= 5;
        let n = COUNTS[i % COUNTS.len()];
        i /= COUNTS.len();
        let name = self.names[i];
        let elem = |k: usize| match fill {
            0 => RV::Bool(true),
            1 => RV::Int(k as i64 + 1),
            2 => RV::Float(2.5 + k as f64),
            3 => RV::Str("a".into()),
            _ => {
                if k == 0 {
                    RV::Bool(k % 2 == 0)
                } else {
                    RV::Int(k as i64)
                }
            },
        };
        let arg = match n {
            0 => RV::Empty,
            1 => elem(0),
            _ => RV::Tuple((0..n).map(elem).collect()),
        };
        check_call(out, name, &self.trees[i], &arg, false);
    }
}

/// `len` and `str::substring` must use the same indexing unit (bytes or characters); the unit is inferred from the
/// observed `len` of each subject and `substring` is then checked in that unit.
struct Consistency {
    subjects: Vec<String>,
    random: u64,
    len_tree: Option<Node>,
    sub3: Option<Node>,
    sub2: Option<Node>,
}

fn build_opt(s: &str) -> Option<Node> {
    match api::build(s) {
        Built::Tree(t) => Some(t),
        _ => None,
    }
}

impl Phase for Consistency {
    fn name(&self) -> String {
        "len-substring-unit".into()
    }
    fn len(&self) -> u64 {
        self.subjects.len() as u64 + self.random
    }
    fn run(&mut self, idx: u64, r: &mut Rng, out: &mut Out) {
        let s = if (idx as usize) < self.subjects.len() { self.subjects[idx as usize].clone() } else { gen::random_string(r, 9) };
        out.begin(|| format!("len/substring of {:?}", s));
        let (lt, s3, s2) = match (&self.len_tree, &self.sub3, &self.sub2) {
            (Some(a), Some(b), Some(c)) => (a, b, c),
            _ => {
                out.inconclusive("len(x) / str::substring(x, i, j) do not precompile".into());
                return;
            },
        };
        let mut c = Ctx::new();
        c.set_value("x".into(), RV::Str(s.clone()).to_value()).unwrap();
        let l = api::eval_tree(lt, &c);
        out.eval();
        let bytes = s.len() as i64;
        let chars = s.chars().count() as i64;
        let n = match &l {
            Got::Val(RV::Int(n)) if *n == bytes || *n == chars => *n,
            other => {
                out.violation("len/unit", format!("len({:?})", s), format!("Int({}) bytes or Int({}) characters", bytes, chars), other.show());
                return;
            },
        };
        let byte_unit = n == bytes;
        out.count(if bytes == chars { "unit: ascii subject" } else if byte_unit { "unit: bytes" } else { "unit: characters" });
        out.nontrivial(&format!("unit {:?}", s));
        let cs: Vec<char> = s.chars().collect();
        let slice = |i: i64, j: i64| -> Option<Option<String>> {
            // Some(Some(text)) exact; Some(None) must be an error; None: unclaimed (byte index inside a character)
            if i < 0 || j < 0 || i > j || j > n {
                return Some(None);
            }
            if byte_unit {
                if !s.is_char_boundary(i as usize) || !s.is_char_boundary(j as usize) {
                    return None;
                }
                Some(Some(s[i as usize..j as usize].to_string()))
            } else {
                Some(Some(cs[i as usize..j as usize].iter().collect()))
            }
        };
        for i in -1..=n + 1 {
            for j in -1..=n + 1 {
                let mut c = Ctx::new();
                c.set_value("x".into(), RV::Str(s.clone()).to_value()).unwrap();
                c.set_value("i".into(), RV::Int(i).to_value()).unwrap();
                c.set_value("j".into(), RV::Int(j).to_value()).unwrap();
                let got = api::eval_tree(s3, &c);
                out.eval();
                let ok = match (slice(i, j), &got) {
                    (_, Got::Panic(_)) => false,
                    (None, _) => true,
                    (Some(None), Got::Err(..)) => true,
                    (Some(Some(t)), Got::Val(RV::Str(g))) => *g == t,
                    _ => false,
                };
                if !ok {
                    out.violation(
                        "substring/unit",
                        format!("str::substring({:?}, {}, {}) where len = {}", s, i, j, n),
                        format!("{:?} in the unit len uses ({})", slice(i, j), if byte_unit { "bytes" } else { "characters" }),
                        got.show(),
                    );
                }
            }
            // two-argument form: up to the end
            let mut c = Ctx::new();
            c.set_value("x".into(), RV::Str(s.clone()).to_value()).unwrap();
            c.set_value("i".into(), RV::Int(i).to_value()).unwrap();
            let got = api::eval_tree(s2, &c);
            out.eval();
            let ok = match (slice(i, n), &got) {
                (_, Got::Panic(_)) => false,
                (None, _) => true,
                (Some(None), Got::Err(..)) => true,
                (Some(Some(t)), Got::Val(RV::Str(g))) => *g == t,
                _ => false,
            };
            if !ok {
                out.violation(
                    "substring/unit",
                    format!("str::substring({:?}, {}) where len = {}", s, i, n),
                    format!("{:?}", slice(i, n)),
                    got.show(),
                );
            }
        }
        out.sample(|| format!("len({:?}) = {} ({}), all substring(i, j) for -1 <= i, j <= {} consistent", s, n, if byte_unit { "bytes" } else { "chars" }, n + 1));
    }
}

/// large arguments: tuples of hundreds of elements, strings of thousands of characters
struct LargeArgs {
    n: u64,
    names: Vec<&'static str>,
    trees: Vec<Option<Node>>,
}

impl Phase for LargeArgs {
    fn name(&self) -> String {
        "large arguments (tuples of 50-600 elements, strings of 200-4000 characters)".into()
    }
    fn len(&self) -> u64 {
        self.n
    }
    fn run(&mut self, _idx: u64, r: &mut Rng, out: &mut Out) {
        let pick = *r.pick(&["min", "max", "contains", "contains_any", "len", "str::from", "typeof", "len", "str::substring", "str::trim", "str::to_uppercase", "str::to_lowercase"]);
        let ni = self.names.iter().position(|n| *n == pick).unwrap();
        let size = if r.chance(1, 2) { r.range(50, 600) } else { (*r.pick(&gen::BOUNDARY_SIZES)).max(2) };
        let nums = |r: &mut Rng, n: usize| -> Vec<RV> {
            let base = r.int_bitlen() / 4;
            (0..n)
                .map(|_| match r.below(4) {
                    0 => RV::Float((base as f64) + (r.below(2001) as f64 - 1000.0) / 4.0),
                    _ => RV::Int(base.wrapping_add(r.below(2001) as i64 - 1000)),
                })
                .collect()
        };
        let long_string = |r: &mut Rng| -> String {
            let n = if r.chance(1, 2) { r.range(200, 4000) } else { *r.pick(&gen::BOUNDARY_SIZES) };
            let alphabet: Vec<char> = "abcXYZ 0189\t\n,;()äßİ日😀\u{a0}\u{3000}".chars().collect();
            let mut s = String::new();
            // leading / trailing whitespace of several kinds for trim
            for _ in 0..r.below(4) {
                s.push(*r.pick(&[' ', '\t', '\u{a0}', '\u{3000}', '\n', '\u{b}']));
            }
            for _ in 0..n {
                s.push(*r.pick(&alphabet));
            }
            for _ in 0..r.below(4) {
                s.push(*r.pick(&[' ', '\t', '\u{a0}', '\u{3000}', '\n', '\u{b}']));
            }
            s
        };
        let arg = match pick {
            "min" | "max" => {
                let mut v = nums(r, size);
                // the extremum at a chosen place: first, last, middle, duplicated
                let ext = RV::Int(if pick == "min" { i64::MIN / 2 } else { i64::MAX / 2 });
                let pos = match r.below(4) {
                    0 => 0,
                    1 => size - 1,
                    _ => r.below(size),
                };
                v[pos] = ext;
                RV::Tuple(v)
            },
            "contains" => {
                let v = nums(r, size);
                let needle = if r.chance(1, 2) { v[if r.chance(1, 2) { size - 1 } else { r.below(size) }].clone() } else { RV::Int(123456789) };
                RV::Tuple(vec![RV::Tuple(v), needle])
            },
            "contains_any" => {
                let mut v = nums(r, size);
                // signed zeros and NaN: found by the language's ==, not by identity or text
                for z in [RV::Float(0.0), RV::Float(-0.0), RV::Float(f64::NAN), RV::Int(0)] {
                    if r.chance(1, 2) {
                        let p = r.below(v.len());
                        v[p] = z;
                    }
                }
                let nn = r.range(1, 40);
                let mut ns = nums(r, nn);
                if r.chance(1, 2) {
                    let k = ns.len() - 1;
                    ns[k] = v[size - 1].clone();
                }
                if r.chance(1, 2) {
                    ns = vec![r.pick(&[RV::Float(0.0), RV::Float(-0.0), RV::Float(f64::NAN), RV::Int(0)]).clone()];
                    while ns.len() * v.len() <= 1100 && ns.len() < 40 {
                        ns.push(RV::Int(987654321 + ns.len() as i64));
                    }
                }
                RV::Tuple(vec![RV::Tuple(v), RV::Tuple(ns)])
            },
            "len" | "typeof" | "str::from" => {
                if r.chance(1, 2) {
                    RV::Tuple(nums(r, size))
                } else {
                    RV::Str(long_string(r))
                }
            },
            "str::substring" => {
                let s = long_string(r);
                let n = s.len() as i64;
                let a = r.below(n as usize + 2) as i64;
                let b = r.below(n as usize + 2) as i64;
                RV::Tuple(vec![RV::Str(s), RV::Int(a.min(b)), RV::Int(a.max(b))])
            },
            _ => RV::Str(long_string(r)),
        };
        out.count(&format!("large {}", pick));
        check_call(out, pick, &self.trees[ni], &arg, false);
    }
}

pub fn selfcheck() -> Result<String, String> {
    // README / pinned-test facts the reference must reproduce
    let t = |n: &str, a: RV, want: RV| -> Result<(), String> {
        match reference(n, &a) {
            Some(e) if e.accepts(&Ok(want.clone())) => Ok(()),
            other => Err(format!("reference builtin {}({}) = {:?}, README says {}", n, a.show(), other.map(|e| e.show()), want.show())),
        }
    };
    let i = RV::Int;
    let f = RV::Float;
    let s = |x: &str| RV::Str(x.to_string());
    t("min", RV::Tuple(vec![i(4), f(3.0)]), f(3.0))?;
    t("max", RV::Tuple(vec![i(4), f(3.0)]), i(4))?;
    t("len", s("foo"), i(3))?;
    t("len", RV::Tuple(vec![i(1), i(2), i(3)]), i(3))?;
    t("math::log", RV::Tuple(vec![i(8), i(2)]), f(3.0))?;
    t("math::pow", RV::Tuple(vec![i(2), i(10)]), f(1024.0))?;
    t("floor", f(2.7), f(2.0))?;
    t("round", f(2.5), f(3.0))?;
    t("typeof", RV::Empty, s("empty"))?;
    t("str::from", RV::Tuple(vec![s("a"), f(3.3), i(3), RV::Tuple(vec![i(42), f(4.2)]), RV::Empty, RV::Bool(true)]), s("(\"a\", 3.3, 3, (42, 4.2), (), true)"))?;
    t("str::substring", RV::Tuple(vec![s("foobar"), i(3)]), s("bar"))?;
    t("str::substring", RV::Tuple(vec![s("foobar"), i(1), i(3)]), s("oo"))?;
    t("shl", RV::Tuple(vec![i(1), i(3)]), i(8))?;
    t("shr", RV::Tuple(vec![i(-8), i(1)]), i(-4))?;
    t("bitnot", i(0), i(-1))?;
    t("if", RV::Tuple(vec![RV::Bool(false), i(1), i(2)]), i(2))?;
    t("contains", RV::Tuple(vec![RV::Tuple(vec![i(1), i(2)]), i(2)]), RV::Bool(true))?;
    t("math::abs", i(-5), i(5))?;
    if BUILTINS.iter().any(|n| reference(n, &RV::Empty).is_none()) {
        return Err("a builtin name has no reference".into());
    }
    Ok("49 reference builtins, 18 documented facts reproduced".into())
}

pub fn phases(cfg: &Cfg) -> Vec<Box<dyn Phase>> {
    phases_with(cfg, &[])
}

/// `extra`: further names to call (C01 passes the names found in the working tree's builtin table; the reference
/// knows nothing about them, so only the panic monitor has an opinion)
pub fn phases_with(cfg: &Cfg, extra: &[&'static str]) -> Vec<Box<dyn Phase>> {
    let mut names = names();
    for e in extra {
        if !names.contains(e) {
            names.push(e);
        }
    }
    let (p2, p3) = if cfg.thorough {
        let full = gen::full_pool();
        let mid: Vec<RV> = full.iter().step_by(2).cloned().collect();
        (full, mid)
    } else {
        (gen::full_pool(), gen::small_pool())
    };
    let mut subjects: Vec<String> = gen::string_pool().iter().map(|s| s.to_string()).collect();
    subjects.extend(["aäb", "日本語", "a😀b", "éé", "\u{301}a", "ab\u{0}", "x\u{2028}y"].iter().map(|s| s.to_string()));
    vec![
        Box::new(MatrixPhase {
            trees: call_trees(&names),
            args: arg_values(&p2, &p3),
            names: names.clone(),
        }),
        Box::new(Consistency {
            subjects,
            random: cfg.n(300, 6000),
            len_tree: build_opt("len(x)"),
            sub3: build_opt("str::substring(x, i, j)"),
            sub2: build_opt("str::substring(x, i)"),
        }),
        Box::new(IntSweep {
            trees: call_trees(&names),
            names: names.clone(),
        }),
        Box::new(ArgumentCounts {
            trees: call_trees(&names),
            names: names.clone(),
        }),
        Box::new(LargeArgs {
            n: cfg.n(6_000, 1_500_000),
            trees: call_trees(&names),
            names: names.clone(),
        }),
        Box::new(PinnedArgument {
            per_combo: cfg.n(6_000, 300_000),
            trees: call_trees(&names),
            names: names.clone(),
        }),
        Box::new(RandomArgs {
            n: cfg.n(2_000_000, 100_000_000),
            trees: call_trees(&names),
            names,
        }),
    ]
}

//! C01 — the library never panics, whatever the input.
//! The oracle is the panic monitor (hook + catch_unwind; aborts are caught by the driver, which re-runs the shard in
//! careful mode). Every case also formats Display + Debug of whatever came back.

use super::c12::{check_pair, hostile_string};
use crate::api::{self, Ctx};
use crate::fw::{Cfg, Out, Phase};
use crate::gen;
use crate::observe::{self, guard, FnModel};
use crate::refmodel::eval::Model;
use crate::refmodel::lex::{render_spaced, Tok};
use crate::refmodel::value::RV;
use crate::rng::Rng;
use evalexpr::{
    build_operator_tree, context_map, math_consts_context, ContextWithMutableVariables, DefaultNumericTypes,
    EmptyContext, EmptyContextWithBuiltinFunctions, HashMapContext, IterateVariablesContext, Node,
};

/// runs another property's phase and keeps only what the panic monitor saw
struct PanicOnly {
    inner: Box<dyn Phase>,
    label: &'static str,
}

impl Phase for PanicOnly {
    fn name(&self) -> String {
        format!("panic-probe: {} [{}]", self.label, self.inner.name())
    }
    fn len(&self) -> u64 {
        self.inner.len()
    }
    fn exhaustive(&self) -> bool {
        self.inner.exhaustive()
    }
    fn run(&mut self, idx: u64, r: &mut Rng, out: &mut Out) {
        let before = out.violations.len();
        let before_count = out.violation_count;
        self.inner.run(idx, r, out);
        out.keep_only_panics_since(before, before_count);
    }
}

fn fmt_all<T: std::fmt::Debug>(x: &T) -> usize {
    format!("{:?}", x).len()
}

/// every public thing one can do with the result of precompiling `src`
fn exercise(out: &mut Out, src: &str, ctxs: &(Ctx, Ctx)) {
    out.begin(|| src.to_string());
    let r = guard(|| {
        let mut n = 0usize;
        match build_operator_tree::<DefaultNumericTypes>(src) {
            Err(e) => {
                n += fmt_all(&e) + format!("{}", e).len();
                let _ = e.clone() == e;
            },
            Ok(t) => {
                n += fmt_all(&t) + format!("{}", t).len();
                let t2 = t.clone();
                let _ = t2 == t;
                n += t.iter().count();
                n += t.iter_identifiers().count() + t.iter_variable_identifiers().count();
                n += t.iter_read_variable_identifiers().count() + t.iter_write_variable_identifiers().count();
                n += t.iter_function_identifiers().count();
                let mut t3 = t.clone();
                n += t3.iter_identifiers_mut().count() + t3.iter_variable_identifiers_mut().count();
                n += t3.iter_read_variable_identifiers_mut().count() + t3.iter_write_variable_identifiers_mut().count();
                n += t3.iter_function_identifiers_mut().count() + t3.iter_operators_mut().count();
                let _ = (t3.operator(), t3.children().len());
                let show = |r: &dyn std::fmt::Debug| format!("{:?}", r).len();
                // the two HashMapContexts (identifiers bound / builtins off), the fixed contexts
                let mut a = ctxs.0.clone();
                let r1 = t.eval_with_context_mut(&mut a);
                n += show(&r1);
                if let Ok(v) = &r1 {
                    n += format!("{}", v).len();
                } else if let Err(e) = &r1 {
                    n += format!("{}", e).len();
                }
                n += show(&t.eval_with_context(&ctxs.0));
                let mut b = ctxs.1.clone();
                n += show(&t.eval_with_context_mut(&mut b));
                n += show(&t.eval_with_context(&EmptyContext::<DefaultNumericTypes>::default()));
                n += show(&t.eval_with_context(&EmptyContextWithBuiltinFunctions::<DefaultNumericTypes>::default()));
                n += show(&t.eval()) + show(&t.eval_string()) + show(&t.eval_int()) + show(&t.eval_float());
                n += show(&t.eval_number()) + show(&t.eval_boolean()) + show(&t.eval_tuple()) + show(&t.eval_empty());
                n += show(&t.eval_int_with_context(&ctxs.0)) + show(&t.eval_tuple_with_context(&ctxs.0));
                let mut c = ctxs.0.clone();
                n += show(&t.eval_number_with_context_mut(&mut c)) + show(&t.eval_string_with_context_mut(&mut c));
                n += a.iter_variables().count() + a.iter_variable_names().count() + format!("{:?}", a).len();
                drop(t);
            },
        }
        n
    });
    out.evals(24);
    if let Err(p) = r {
        out.violation("panic", src.to_string(), "returns Ok or Err".into(), format!("panicked {}", api::panic_text(&p)));
    }
}

fn probe_contexts() -> (Ctx, Ctx) {
    let log = observe::new_log();
    let mut m = Model::new();
    for (k, v) in [("a", RV::Int(3)), ("x", RV::Float(2.5)), ("b", RV::Bool(true)), ("s", RV::Str("äb".into()))] {
        m.vars.insert(k.to_string(), v);
    }
    m.funs.insert("f".into(), FnModel::Nested);
    m.funs.insert("t".into(), FnModel::IntMap);
    m.funs.insert("nest".into(), FnModel::Nested);
    // a function named like the variable `a` that passes on the unknown-function error of something it evaluated
    m.funs.insert("a".into(), FnModel::FailNotFound("typeof"));
    m.funs.insert("deep".into(), FnModel::Deep);
    let c1 = api::ctx_from_model(&m, &log);
    let mut m2 = Model::new();
    m2.builtins_off = true;
    m2.vars.insert("a".into(), RV::Tuple(vec![RV::Int(1), RV::Empty]));
    m2.vars.insert("f".into(), RV::Int(i64::MIN));
    let c2 = api::ctx_from_model(&m2, &log);
    (c1, c2)
}

/// exhaustive token sequences through the whole API surface, with the H1 precondition monitor
struct TokenSurface {
    label: &'static str,
    alphabet: Vec<Tok>,
    maxlen: u32,
    hook_every: u64,
    ctxs: (Ctx, Ctx),
}

impl Phase for TokenSurface {
    fn name(&self) -> String {
        format!("token-sequences {} len<={} through the whole API", self.label, self.maxlen)
    }
    fn len(&self) -> u64 {
        gen::seq_space(self.alphabet.len() as u64, self.maxlen)
    }
    fn exhaustive(&self) -> bool {
        true
    }
    fn run(&mut self, idx: u64, _r: &mut Rng, out: &mut Out) {
        let seq = gen::decode_seq(idx, self.alphabet.len() as u64, self.maxlen);
        let toks: Vec<Tok> = seq.iter().map(|i| self.alphabet[*i].clone()).collect();
        let src = render_spaced(&toks);
        let hook = self.hook_every > 0 && idx % self.hook_every == 0;
        if hook {
            observe::start_parser_trace();
        }
        exercise(out, &src, &self.ctxs);
        out.nontrivial(&src);
        out.sample(|| format!("`{}`", src));
        if hook {
            // H1: the two preconditions of the parser's unwrap()/unreachable!() sites
            let states = observe::stop_parser_trace();
            out.count_n("H1 parser-step events", states.len() as u64);
            let mut breach = false;
            for st in &states {
                out.seen("parser stack shapes (H1)", &observe::shape_signature(st));
                if st.is_empty() || st.iter().any(|e| e.is_sequence && e.children == 0) {
                    breach = true;
                }
            }
            if breach {
                // never reported by itself: turn the latent state into a concrete witness or stay silent
                out.count("H1 precondition breaches (latent states)");
                for tail in [" 1", " )", " , 1", " ; 1", " a"] {
                    let s2 = format!("{}{}", src, tail);
                    exercise(out, &s2, &self.ctxs);
                }
            }
        }
    }
}

/// single words made of digits of every script, digit-like characters and the separators people put into numbers
/// (whatever tries to read them as a number must not trip over them), alone and inside a small expression
struct HostileWords {
    n: u64,
    numeric: Vec<char>,
    ctxs: (Ctx, Ctx),
}

impl Phase for HostileWords {
    fn name(&self) -> String {
        "number-like words of all scripts through the whole API".into()
    }
    fn len(&self) -> u64 {
        self.n
    }
    fn run(&mut self, idx: u64, r: &mut Rng, out: &mut Out) {
        if idx < 400 {
            // what other languages read as an access path into a value: here a name (bound names of the probe contexts:
            // an int, a float, a string, a 2-tuple, a function)
            let var = ["a", "x", "b", "s", "f"][(idx % 5) as usize];
            let suffixes = [".0", ".1", ".2", ".3", ".00", ".-1", ".18446744073709551616", ".1.0", ".2.0", "[0]", "[2]", "[-1]", "::0", ".len", ".", "..", ".0.", "?", "!", "'"];
            let suffix = suffixes[((idx / 5) % 20) as usize];
            let src = match idx / 100 {
                0 => format!("{}{}", var, suffix),
                1 => format!("{}{} + 1", var, suffix),
                2 => format!("{}{} = 1", var, suffix),
                _ => format!("f({}{})", var, suffix),
            };
            exercise(out, &src, &self.ctxs);
            out.nontrivial(&src);
            return;
        }
        let n = r.range(1, 8);
        let mut w = String::new();
        for _ in 0..n {
            match r.below(8) {
                0 | 1 => w.push(*r.pick(&['0', '1', '7', '9'])),
                2 | 3 | 4 => w.push(*r.pick(&self.numeric)),
                5 => w.push(*r.pick(&['_', '.', '\'', ':', 'e', 'E', 'x', 'X', '٫', '٬', '，', '．'])),
                6 => w.push_str(*r.pick(&["_", "0x", "1e", "e1", ".", "__"])),
                _ => w.push(*r.pick(&['a', 'f', 'ä', '\u{200b}', '\u{301}', '#'])),
            }
        }
        let src = match r.below(4) {
            0 => w.clone(),
            1 => format!("{} + 1", w),
            2 => format!("-{}", w),
            _ => format!("f({}, {})", w, w),
        };
        exercise(out, &src, &self.ctxs);
        out.nontrivial(&src);
        out.sample(|| format!("`{}`", src));
    }
}

struct Hostile {
    n: u64,
}

impl Phase for Hostile {
    fn name(&self) -> String {
        "hostile strings x 48 entry points".into()
    }
    fn len(&self) -> u64 {
        self.n
    }
    fn run(&mut self, _idx: u64, r: &mut Rng, out: &mut Out) {
        let src = match r.below(8) {
            0..=3 => hostile_string(r, 40),
            4 => hostile_string(r, 400),
            5 => {
                // token soup
                let alpha = gen::alphabet_all();
                let n = r.range(1, 30);
                let toks: Vec<Tok> = (0..n).map(|_| r.pick(&alpha).clone()).collect();
                if r.chance(1, 2) {
                    render_spaced(&toks)
                } else {
                    gen::render_tight(&toks)
                }
            },
            6 => {
                // a well-formed program damaged by character-level edits
                let ast = super::c08::random_program(r, 6);
                let mut s: Vec<char> = render_spaced(&crate::refmodel::parse::render_ast(&ast, crate::refmodel::parse::Parens::Random, Some(r), true)).chars().collect();
                for _ in 0..r.range(1, 4) {
                    if s.is_empty() {
                        break;
                    }
                    let p = r.below(s.len());
                    match r.below(4) {
                        0 => {
                            s.remove(p);
                        },
                        1 => s.insert(p, *r.pick(&gen::STRING_CHARS)),
                        2 => {
                            let q = r.below(s.len());
                            s.swap(p, q);
                        },
                        _ => s.truncate(p),
                    }
                }
                s.into_iter().collect()
            },
            _ => {
                // builtin calls on hostile literal arguments
                let name = *r.pick(&super::c10::names());
                let n = r.below(4);
                let args: Vec<String> = (0..n)
                    .map(|_| {
                        let v = gen::random_value(r, 1);
                        v.literal().unwrap_or_else(|| format!("{}", r.int_bitlen()))
                    })
                    .collect();
                format!("{}({})", name, args.join(", "))
            },
        };
        let model = super::c08::random_model(r);
        let log = observe::new_log();
        let c0 = api::ctx_from_model(&model, &log);
        let before = out.violations.len();
        let before_count = out.violation_count;
        check_pair(out, &src, &c0, "hostile".into());
        out.keep_only_panics_since(before, before_count);
    }
}

pub fn nest_patterns() -> Vec<(&'static str, String)> {
    let n = 4096usize;
    let rep = |unit: &str, tail: &str| -> String {
        let k = (n - tail.len()) / unit.len();
        format!("{}{}", unit.repeat(k), tail)
    };
    vec![
        ("parentheses", format!("{}1{}", "(".repeat((n - 1) / 2), ")".repeat((n - 1) / 2))),
        ("prefix minus", rep("-", "1")),
        ("prefix not", rep("!", "true")),
        ("left-deep sum", rep("1+", "1")),
        ("right-assoc assignment", rep("a=", "1")),
        ("exponent chain", rep("2^", "2")),
        ("call chain", rep("f ", "x")),
        ("nested calls", format!("{}1{}", "f(".repeat((n - 1) / 3), ")".repeat((n - 1) / 3))),
        ("nested tuples", format!("{}1{}", "(1,".repeat((n - 1) / 4), ")".repeat((n - 1) / 4))),
        ("chain", rep("1;", "1")),
        ("flat tuple", rep("1,", "1")),
        ("comparison chain", rep("1<", "1")),
        ("mixed prefix in parens", format!("{}1{}", "-(!".repeat((n - 1) / 4), ")".repeat((n - 1) / 4))),
        ("unclosed parentheses", "(".repeat(n)),
        ("unopened parentheses", ")".repeat(n)),
        ("long string", format!("\"{}\"", "\\\"ä".repeat((n - 2) / 3))),
        ("long identifier", "x".repeat(n)),
        ("long digits", "9".repeat(n)),
        ("block comments", rep("/**/", "1")),
        ("operators only", "+-*/%^".repeat(n / 6)),
    ]
}

/// maximal nesting of every recursive construct at exactly the documented input bound
struct DepthStress {
    patterns: Vec<(&'static str, String)>,
    ctxs: (Ctx, Ctx),
}

impl Phase for DepthStress {
    fn name(&self) -> String {
        "maximal nesting at 4096 characters (8 MiB stack)".into()
    }
    fn len(&self) -> u64 {
        self.patterns.len() as u64
    }
    fn exhaustive(&self) -> bool {
        true
    }
    fn run(&mut self, idx: u64, _r: &mut Rng, out: &mut Out) {
        let (label, src) = self.patterns[idx as usize].clone();
        out.begin(|| format!("depth pattern `{}` ({} chars): {}…", label, src.chars().count(), crate::fw::clip(&src, 40)));
        out.count(&format!("pattern {}", label));
        out.nontrivial(label);
        debug_assert!(src.chars().count() <= 4096);
        exercise(out, &src, &self.ctxs);
        out.sample(|| format!("{} ({} chars) returned without unwinding", label, src.chars().count()));
    }
}

/// Display + Debug of errors carrying hostile values (public error constructors and errors produced by evaluation)
struct ErrorDisplay {
    values: Vec<RV>,
}

fn display_values() -> Vec<RV> {
    let mut v = gen::full_pool();
    // long non-ASCII strings in every byte alignment (message truncation / padding code likes to slice bytes)
    for pad in 0..4 {
        for n in [20usize, 26, 27, 39, 40, 41, 64, 100] {
            let s = format!("{}{}", "a".repeat(pad), "ä".repeat(n));
            v.push(RV::Str(s.clone()));
            v.push(RV::Tuple(vec![RV::Str(s), RV::Int(1)]));
        }
        v.push(RV::Str(format!("{}{}", "x".repeat(pad), "😀".repeat(30))));
        v.push(RV::Str(format!("{}{}", "x".repeat(pad), "日本語".repeat(20))));
    }
    v.push(RV::Tuple((0..40).map(|i| RV::Tuple(vec![RV::Int(i), RV::Str("é".repeat(i as usize))])).collect()));
    v
}

impl Phase for ErrorDisplay {
    fn name(&self) -> String {
        "Display/Debug of errors and values carrying hostile payloads".into()
    }
    fn len(&self) -> u64 {
        self.values.len() as u64
    }
    fn exhaustive(&self) -> bool {
        true
    }
    fn run(&mut self, idx: u64, _r: &mut Rng, out: &mut Out) {
        use evalexpr::{EvalexprError as E, ValueType};
        let rv = self.values[idx as usize].clone();
        out.begin(|| format!("errors carrying {}", crate::fw::clip(&rv.show(), 200)));
        out.nontrivial(&rv.show());
        let res = guard(|| {
            let v = rv.to_value();
            let mut n = format!("{}", v).len() + format!("{:?}", v).len();
            let errs: Vec<E> = vec![
                E::expected_string(v.clone()),
                E::expected_int(v.clone()),
                E::expected_float(v.clone()),
                E::expected_number(v.clone()),
                E::expected_number_or_string(v.clone()),
                E::expected_boolean(v.clone()),
                E::expected_tuple(v.clone()),
                E::expected_fixed_len_tuple(2, v.clone()),
                E::expected_ranged_len_tuple(1..=3, v.clone()),
                E::expected_empty(v.clone()),
                E::type_error(v.clone(), vec![ValueType::Int, ValueType::String]),
                E::wrong_operator_argument_amount(1, 2),
                E::wrong_function_argument_amount(1, 2),
                E::wrong_function_argument_amount_range(1, 2..=3),
                E::VariableIdentifierNotFound(format!("{}", v)),
                E::FunctionIdentifierNotFound(format!("{}", v)),
                E::CustomMessage(format!("{}", v)),
                E::IllegalEscapeSequence(format!("{}", v)),
                E::invalid_regex(format!("{}", v), format!("{:?}", v)),
            ];
            let mut errs = errs;
            // the same constructors with degenerate arguments (no types at all, one type, three; empty and reversed
            // ranges; zero lengths): whatever a user function may hand back
            {
                use evalexpr::Operator as O;
                let tys = [ValueType::Int, ValueType::Float, ValueType::String, ValueType::Tuple, ValueType::Empty, ValueType::Boolean];
                let ops: Vec<O> = vec![
                    O::Add, O::Sub, O::Neg, O::Not, O::Mul, O::Exp, O::Eq, O::And, O::Assign, O::AddAssign, O::AndAssign, O::Tuple, O::Chain, O::RootNode,
                    O::Const { value: v.clone() },
                    O::VariableIdentifierRead { identifier: format!("{}", v) },
                    O::VariableIdentifierWrite { identifier: "w".into() },
                    O::FunctionIdentifier { identifier: "f".into() },
                ];
                for (k, op) in ops.into_iter().enumerate() {
                    for len in 0..=3usize {
                        errs.push(E::wrong_type_combination(op.clone(), (0..len).map(|i| tys[(i + k) % tys.len()]).collect()));
                    }
                }
                for len in 0..=3usize {
                    errs.push(E::type_error(v.clone(), tys[..len].to_vec()));
                }
                errs.push(E::expected_fixed_len_tuple(0, v.clone()));
                errs.push(E::expected_fixed_len_tuple(usize::MAX, v.clone()));
                errs.push(E::expected_ranged_len_tuple(0..=0, v.clone()));
                #[allow(clippy::reversed_empty_ranges)]
                errs.push(E::expected_ranged_len_tuple(5..=2, v.clone()));
                errs.push(E::expected_ranged_len_tuple(0..=usize::MAX, v.clone()));
                errs.push(E::wrong_operator_argument_amount(0, 0));
                errs.push(E::wrong_operator_argument_amount(usize::MAX, usize::MAX));
                #[allow(clippy::reversed_empty_ranges)]
                errs.push(E::wrong_function_argument_amount_range(0, 3..=1));
                errs.push(E::wrong_function_argument_amount_range(usize::MAX, 0..=usize::MAX));
                errs.push(E::VariableIdentifierNotFound(String::new()));
                errs.push(E::FunctionIdentifierNotFound(String::new()));
                errs.push(E::CustomMessage(String::new()));
                errs.push(E::IllegalEscapeSequence(String::new()));
            }
            for e in &errs {
                n += format!("{}", e).len() + format!("{:?}", e).len();
                let _ = e.clone() == *e;
            }
            // errors produced by evaluation, carrying the value
            let mut c = Ctx::new();
            let _ = c.set_value("x".into(), v.clone());
            let _ = c.set_value("i".into(), evalexpr::Value::Int(1));
            for src in ["-x", "!x", "x + 1", "1 - x", "x && true", "x < 2", "len(x)", "math::sqrt(x)", "min(1, x)", "x = 1", "i = x", "i += x", "str::substring(x, 1)", "if(x, 1, 2)", "contains((1, 2), x)", "bitand(x, 1)", "(x, x) == x", "x(1)", "typeof(x) + 1"] {
                let r = evalexpr::eval_with_context_mut(src, &mut c.clone());
                n += match &r {
                    Ok(v) => format!("{}{:?}", v, v).len(),
                    Err(e) => format!("{}{:?}", e, e).len(),
                };
            }
            n
        });
        out.evals(60);
        if let Err(p) = res {
            out.violation("panic", format!("Display/Debug of errors carrying {}", rv.show()), "returns".into(), api::panic_text(&p));
        }
        out.sample(|| format!("19 constructed + 19 evaluated errors around {} formatted", crate::fw::clip(&rv.show(), 80)));
    }
}

/// contexts built through the API in every way, then used
struct ContextWays {
    n: u64,
}

impl Phase for ContextWays {
    fn name(&self) -> String {
        "contexts built through the public API in all ways".into()
    }
    fn len(&self) -> u64 {
        self.n
    }
    fn run(&mut self, _idx: u64, r: &mut Rng, out: &mut Out) {
        let v1 = gen::random_value(r, 2);
        let v2 = gen::random_value(r, 2);
        let name = if r.chance(1, 3) { gen::random_string(r, 4) } else { r.pick(&["a", "x", "len", "math::ln", ""]).to_string() };
        let prog = if r.chance(1, 2) { hostile_string(r, 30) } else { format!("{} = {}; {} += 1; (a, x, {})", name, v1.literal().unwrap_or("1".into()), name, name) };
        out.begin(|| format!("context ways: name {:?}, values {} / {}, program {:?}", name, v1.show(), v2.show(), prog));
        let res = guard(|| {
            let mut n = 0usize;
            let mut c: HashMapContext<DefaultNumericTypes> = HashMapContext::new();
            let _ = c.set_value(name.clone(), v1.to_value());
            let _ = c.set_value(name.clone(), v2.to_value()); // possibly a failed (type-changing) assignment
            n += format!("{:?}", c).len();
            let mut d = c.clone();
            d.clear_variables();
            let _ = d.set_value(name.clone(), v2.to_value());
            n += format!("{:?}", evalexpr::eval_with_context_mut(&prog, &mut d)).len();
            d.clear();
            n += format!("{:?}", evalexpr::eval_with_context(&prog, &d)).len();
            let m: Result<HashMapContext<DefaultNumericTypes>, _> = context_map! {
                "a" => int 5,
                "x" => float 2.5,
                "s" => "str",
                "f" => Function::new(|v| Ok(v.clone())),
            };
            if let Ok(mut m) = m {
                n += format!("{:?}", evalexpr::eval_with_context_mut(&prog, &mut m)).len();
                n += m.iter_variables().count();
            }
            let k: Result<HashMapContext<DefaultNumericTypes>, _> = math_consts_context!();
            if let Ok(k) = k {
                n += format!("{:?}", evalexpr::eval_with_context(&prog, &k)).len();
            }
            n
        });
        out.evals(6);
        out.nontrivial(&format!("{}|{}|{}", name, v1.show(), prog));
        if let Err(p) = res {
            out.violation(
                "panic",
                format!("context built by new/set_value/clone/clear/context_map!/math_consts_context!, name {:?}, values {} / {}, program {:?}", name, v1.show(), v2.show(), prog),
                "returns Ok or Err".into(),
                api::panic_text(&p),
            );
        }
    }
}

pub fn selfcheck() -> Result<String, String> {
    // the panic monitor must see a panic raised below a guard
    let r = guard(|| {
        if std::env::var("EVX_NEVER_SET_123").is_err() {
            panic!("selfcheck panic");
        }
    });
    match r {
        Err(p) if p.message.contains("selfcheck panic") => Ok("panic monitor observes a planted panic (location and message recorded)".into()),
        other => Err(format!("panic monitor did not observe the planted panic: {:?}", other.map_err(|p| p.message))),
    }
}

pub fn phases(cfg: &Cfg) -> Vec<Box<dyn Phase>> {
    let t = cfg.thorough;
    let dev = std::env::var("EVX_PROFILE").map(|p| p == "dev").unwrap_or(false);
    let c03 = super::c03::phases(cfg);
    // every name the working tree's builtin table matches on (the driver extracts them), known to the reference or not
    let extra: Vec<&'static str> = std::env::var("EVX_EXTRA_FN_NAMES")
        .unwrap_or_default()
        .split(',')
        .filter(|s| !s.is_empty())
        .map(|s| &*Box::leak(s.to_string().into_boxed_str()))
        .collect();
    let c10 = super::c10::phases_with(cfg, &extra);
    let mut v: Vec<Box<dyn Phase>> = Vec::new();
    v.push(Box::new(DepthStress {
        patterns: nest_patterns(),
        ctxs: probe_contexts(),
    }));
    v.push(Box::new(ErrorDisplay {
        values: display_values(),
    }));
    // every phase of the builtin check and of the operator check, watched by the panic monitor only
    for inner in c10 {
        v.push(Box::new(PanicOnly {
            inner,
            label: "builtins",
        }));
    }
    for inner in c03 {
        v.push(Box::new(PanicOnly {
            inner,
            label: "operators",
        }));
    }
    v.push(Box::new(HostileWords {
        n: cfg.n(100_000, 5_000_000),
        numeric: (0u32..0x20000).filter_map(char::from_u32).filter(|c| c.is_numeric() && !c.is_ascii()).collect(),
        ctxs: probe_contexts(),
    }));
    // the unoptimised dev profile is ~20x slower: one length less there
    let cut = if dev { 1 } else { 0 };
    v.push(Box::new(TokenSurface {
        label: "A16",
        alphabet: gen::alphabet16(),
        maxlen: (if t { 6 } else { 5 }) - cut,
        hook_every: 8,
        ctxs: probe_contexts(),
    }));
    v.push(Box::new(TokenSurface {
        label: "A23",
        alphabet: gen::alphabet23(),
        maxlen: (if t { 5 } else { 4 }) - cut,
        hook_every: 0,
        ctxs: probe_contexts(),
    }));
    v.push(Box::new(TokenSurface {
        label: "all-operators+words(42)",
        alphabet: gen::alphabet_all(),
        // (83 tokens: length 4 would be 47 million sequences x 24 calls; the hostile token soup covers longer ones)
        maxlen: 3 - cut,
        hook_every: 0,
        ctxs: probe_contexts(),
    }));
    v.push(Box::new(Hostile {
        n: cfg.n(60_000, 3_000_000),
    }));
    v.push(Box::new(ContextWays {
        n: cfg.n(20_000, 500_000),
    }));
    v
}

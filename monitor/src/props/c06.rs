//! C06 — literals denote exactly their value.

use crate::api::{self, Built, Ctx, Got};
use crate::fw::{Cfg, Out, Phase};
use crate::gen;
use crate::refmodel::lex::{classify_word, is_word_char, WordClass};
use crate::refmodel::parse::{from_node, Ast};
use crate::refmodel::value::{quote, RV};
use crate::rng::Rng;
use evalexpr::ContextWithMutableVariables;

fn eval_free(src: &str) -> Got {
    api::eval_str_mut(src, &mut Ctx::new())
}

fn expect_value(out: &mut Out, rule: &str, src: &str, want: &RV) {
    let got = eval_free(src);
    out.eval();
    let ok = matches!(&got, Got::Val(v) if v.same(want));
    if !ok {
        out.violation(rule, format!("{:?}", src), format!("Ok({})", want.show()), got.show());
    }
}

fn expect_error(out: &mut Out, rule: &str, src: &str) {
    let got = eval_free(src);
    out.eval();
    if !matches!(&got, Got::Err(..)) {
        out.violation(rule, format!("{:?}", src), "an error".into(), got.show());
    }
}

/// the constants of the tree of `src`, in source order, must be exactly `want` (and the tree must equal `ast`)
fn expect_tree(out: &mut Out, rule: &str, src: &str, ast: &Ast) {
    out.eval();
    match api::build(src) {
        Built::Tree(t) => match from_node(&t) {
            Ok(a) if a.same(ast) => {},
            Ok(a) => out.violation(rule, format!("{:?}", src), ast.sx(), a.sx()),
            Err(e) => out.violation(rule, format!("{:?}", src), ast.sx(), e),
        },
        Built::Err(_, d) => out.violation(rule, format!("{:?}", src), ast.sx(), format!("Err({})", d)),
        Built::Panic(p) => out.violation("panic", format!("{:?}", src), ast.sx(), p),
    }
}

// ---------------------------------------------------------------------------------------------------

struct Strings {
    singles: Vec<char>,
    random: u64,
}

/// every ordered pair over a small hostile set (line endings, quotes, comment markers)
const PAIR_CHARS: [char; 10] = ['\r', '\n', '\\', '"', '/', '*', ' ', 'a', '\t', '\u{85}'];

/// 30 assignments (well over a hundred tokens) in front of a literal; `word`, if given, is first used as an identifier
fn long_prefix(word: Option<&str>) -> String {
    let mut s = String::new();
    if let Some(w) = word {
        s.push_str(&format!("{} = 7; {} + 1; ", w, w));
    }
    for k in 0..30 {
        s.push_str(&format!("p{} = {}; ", k, k));
    }
    s
}

fn check_string(out: &mut Out, t: &str, r: &mut Rng, embeddings: bool) {
    let q = quote(t);
    out.begin(|| q.clone());
    out.nontrivial(&q);
    let want = RV::Str(t.to_string());
    expect_value(out, "string/round-trip", &q, &want);
    if t.chars().any(|c| c == ' ' || c == '\t' || c == '\n') {
        // blanks inside a literal are text: the same literal with every blank doubled, evaluated right afterwards,
        // denotes the longer text
        let t2: String = t.chars().flat_map(|c| if c == ' ' || c == '\t' || c == '\n' { vec![c, c] } else { vec![c] }).collect();
        expect_value(out, "string/round-trip", &quote(&t2), &RV::Str(t2.clone()));
        expect_value(out, "string/round-trip", &q, &want);
    }
    out.sample(|| format!("eval({:?}) == String({:?})", q, t));
    if embeddings {
        // next to other tokens without spaces, next to comments, inside a call, concatenated
        expect_value(out, "string/embedded", &format!("({})", q), &want);
        expect_value(out, "string/embedded", &format!("/*c*/{}//t", q), &want);
        expect_value(out, "string/embedded", &format!("str::from({})", q), &want);
        let other = gen::random_string(r, 5);
        let cat = RV::Str(format!("{}{}", t, other));
        expect_value(out, "string/embedded", &format!("{}+{}", q, quote(&other)), &cat);
        expect_value(out, "string/embedded", &format!("x={};x", q), &want);
        // an identifier glued to the literal is a function applied to that very string (no raw / byte / format
        // string prefixes in this language)
        let name = *r.pick(&["r", "b", "f", "u8", "rb", "br", "c", "R", "id"]);
        expect_tree(out, "string/prefixed-by-identifier", &format!("{}{}", name, q), &Ast::Call(name.to_string(), Box::new(Ast::Const(want.clone()))));
        // directly after a word that could begin a number, with a sign in between: still that text
        let b = |o: &'static str, l: Ast, rr: Ast| Ast::Bin(o, Box::new(l), Box::new(rr));
        expect_tree(out, "string/embedded", &format!("1e+{}", q), &b("+", Ast::Read("1e".into()), Ast::Const(want.clone())));
        expect_tree(out, "string/embedded", &format!("2.5E-{}", q), &b("-", Ast::Read("2.5E".into()), Ast::Const(want.clone())));
        expect_value(out, "string/embedded", &format!("{}{}", long_prefix(None), q), &want);
        out.count("strings embedded 9 ways");
    }
}

/// strings and identifiers of exactly the sizes at which buffers, small-string representations and chunked scanners
/// change gear, filled with one-byte characters, multi-byte characters, and one multi-byte character straddling the end
struct BoundarySizes;

impl Phase for BoundarySizes {
    fn name(&self) -> String {
        "literals and identifiers of boundary lengths".into()
    }
    fn len(&self) -> u64 {
        gen::BOUNDARY_SIZES.len() as u64 * 8
    }
    fn exhaustive(&self) -> bool {
        true
    }
    fn run(&mut self, idx: u64, r: &mut Rng, out: &mut Out) {
        let n = gen::BOUNDARY_SIZES[(idx / 8) as usize];
        let t: String = match idx % 8 {
            0 => "a".repeat(n),
            1 => "é".repeat(n),
            2 => format!("{}é", "a".repeat(n - 1)),
            3 => format!("{}😀", "a".repeat(n - 1)),
            4 => format!("{}\"", "a".repeat(n - 1)),
            5 => format!("{}\\", "a".repeat(n - 1)),
            6 => format!("é{}", "a".repeat(n - 1)),
            _ => " ".repeat(n),
        };
        check_string(out, &t, r, n <= 64);
        out.count("strings of boundary lengths");
        // the same sizes as identifiers (and as digit strings: integers below 2^63 only up to 18 digits)
        let w: String = match idx % 8 {
            0 => "a".repeat(n),
            1 => "é".repeat(n),
            2 => format!("{}é", "a".repeat(n - 1)),
            3 => format!("{}日", "x".repeat(n - 1)),
            4 => format!("{}1", "_".repeat(n - 1)),
            5 => format!("e{}", "9".repeat(n - 1)),
            6 => format!("{}::b", "a".repeat(n.saturating_sub(3).max(1))),
            _ => format!("0x{}g", "f".repeat(n)),
        };
        check_word(out, &w);
        if n <= 18 {
            let d = "9".repeat(n);
            expect_value(out, "int/decimal", &d, &RV::Int(d.parse().unwrap()));
            expect_value(out, "int/decimal", &format!("{}{}", "0".repeat(40), d), &RV::Int(d.parse().unwrap()));
        }
        if n <= 15 {
            let h = "f".repeat(n);
            expect_value(out, "int/hex", &format!("0x{}", h), &RV::Int(i64::from_str_radix(&h, 16).unwrap()));
        }
        // a float literal with n fraction digits
        let f = format!("0.{}5", "0".repeat(n.min(300)));
        if let Ok(x) = f.parse::<f64>() {
            expect_value(out, "float/rendering", &f, &RV::Float(x));
        }
    }
}

impl Phase for Strings {
    fn name(&self) -> String {
        "string literals: single characters, random strings, embeddings".into()
    }
    fn len(&self) -> u64 {
        self.singles.len() as u64 + 100 + self.random
    }
    fn run(&mut self, idx: u64, r: &mut Rng, out: &mut Out) {
        if (idx as usize) >= self.singles.len() && (idx as usize) < self.singles.len() + 100 {
            let k = idx as usize - self.singles.len();
            let t: String = [PAIR_CHARS[k / 10], PAIR_CHARS[k % 10]].iter().collect();
            check_string(out, &t, r, true);
            check_string(out, &format!("x{}y{}", t, t), r, false);
            out.count("two-character strings");
            return;
        }
        if (idx as usize) < self.singles.len() {
            let c = self.singles[idx as usize];
            let t = c.to_string();
            check_string(out, &t, r, true);
            out.count("single-character strings");
        } else {
            let max = if r.chance(1, 10) { 200 } else { 24 };
            let t = gen::random_string(r, max);
            let emb = r.chance(1, 3);
            check_string(out, &t, r, emb);
            out.count("random strings");
        }
    }
}

const MULTI_ESCAPES: [&str; 22] = [
    "\\u{41}", "\\u{D800}", "\\u{110000}", "\\u{}", "\\u{FFFFFFFF}", "\\u0041", "\\U00000041", "\\x41", "\\x", "\\101", "\\0", "\\n", "\\r\\n",
    "\\t", "\\'", "\\{", "\\u{1F600}", "\\N{LATIN SMALL LETTER A}", "\\a", "\\e", "\\ ", "\\\n",
];

struct Escapes {
    chars: Vec<char>,
    random: u64,
}

impl Phase for Escapes {
    fn name(&self) -> String {
        "escape sequences and truncated literals".into()
    }
    fn len(&self) -> u64 {
        self.chars.len() as u64 + MULTI_ESCAPES.len() as u64 + self.random
    }
    fn run(&mut self, idx: u64, r: &mut Rng, out: &mut Out) {
        if (idx as usize) >= self.chars.len() && ((idx as usize) - self.chars.len()) < MULTI_ESCAPES.len() {
            // escape-like sequences other languages know: every one of them is an illegal escape here
            let e = MULTI_ESCAPES[(idx as usize) - self.chars.len()];
            let src = format!("\"a{}b\"", e);
            out.begin(|| src.clone());
            out.nontrivial(&src);
            expect_error(out, "string/illegal-escape-accepted", &src);
            out.count("multi-character escape-like sequences");
            return;
        }
        if (idx as usize) < self.chars.len() {
            // every one-character escape: only \" and \\ are legal
            let c = self.chars[idx as usize];
            let src = format!("\"a\\{}b\"", c);
            out.begin(|| src.clone());
            out.nontrivial(&src);
            if c == '"' {
                expect_value(out, "string/escape", &src, &RV::Str("a\"b".into()));
            } else if c == '\\' {
                expect_value(out, "string/escape", &src, &RV::Str("a\\b".into()));
            } else {
                expect_error(out, "string/illegal-escape-accepted", &src);
            }
            out.count("one-character escapes");
            out.sample(|| format!("{:?}", src));
        } else {
            // every proper prefix of a quoted string lacks its closing quote (or ends inside an escape)
            let t = gen::random_string(r, 10);
            let q: Vec<char> = quote(&t).chars().collect();
            out.begin(|| format!("truncations of {:?}", quote(&t)));
            out.nontrivial(&quote(&t));
            for cut in 1..q.len() {
                let src: String = q[..cut].iter().collect();
                expect_error(out, "string/unterminated-accepted", &src);
            }
            out.count_n("truncated literals", (q.len() - 1) as u64);
        }
    }
}

// ---------------------------------------------------------------------------------------------------

struct Ints {
    fixed: Vec<i64>,
    random: u64,
}

fn check_int(out: &mut Out, n: i64, r: &mut Rng) {
    out.begin(|| format!("integer {}", n));
    out.nontrivial(&format!("int {}", n));
    let want = RV::Int(n);
    let dec = format!("{}", n);
    expect_value(out, "int/decimal", &dec, &want);
    expect_value(out, "int/hex", &format!("0x{:x}", n), &want);
    expect_value(out, "int/hex", &format!("0x{:X}", n), &want);
    let zeros = "0".repeat(r.range(1, 4));
    expect_value(out, "int/decimal", &format!("{}{}", zeros, dec), &want);
    expect_value(out, "int/hex", &format!("0x{}{:x}", zeros, n), &want);
    // embedded between other tokens without spaces
    let c = |v: RV| Ast::Const(v);
    let b = |o: &'static str, l: Ast, rr: Ast| Ast::Bin(o, Box::new(l), Box::new(rr));
    expect_tree(out, "int/embedded", &format!("1+{}", dec), &b("+", c(RV::Int(1)), c(want.clone())));
    expect_tree(out, "int/embedded", &format!("0x{:x}-3", n), &b("-", c(want.clone()), c(RV::Int(3))));
    expect_tree(out, "int/embedded", &format!("a-{}+2", dec), &b("+", b("-", Ast::Read("a".into()), c(want.clone())), c(RV::Int(2))));
    expect_tree(out, "int/embedded", &format!("({})", dec), &c(want.clone()));
    // at the end of a long program
    expect_value(out, "int/embedded", &format!("{}{}", long_prefix(None), dec), &want);
    expect_value(out, "int/embedded", &format!("{}0x{:x}", long_prefix(Some("0x")), n), &want);
    out.sample(|| format!("{} / 0x{:x} / 0x{:X} all denote Int({})", dec, n, n, n));
}

impl Phase for Ints {
    fn name(&self) -> String {
        "integer literals: decimal, hex, leading zeros, embedded".into()
    }
    fn len(&self) -> u64 {
        self.fixed.len() as u64 + self.random
    }
    fn run(&mut self, idx: u64, r: &mut Rng, out: &mut Out) {
        let n = if (idx as usize) < self.fixed.len() {
            self.fixed[idx as usize]
        } else {
            let bits = r.range(1, 63);
            (r.next() >> (64 - bits)) as i64
        };
        check_int(out, n, r);
    }
}

// ---------------------------------------------------------------------------------------------------

/// standard renderings of a finite non-negative double; each denotes exactly x
fn float_renderings(x: f64) -> Vec<String> {
    let mut v: Vec<String> = Vec::new();
    let dbg = format!("{:?}", x); // shortest round-trip
    v.push(dbg.clone());
    let e = format!("{:e}", x);
    v.push(e.clone());
    v.push(format!("{:E}", x));
    v.push(format!("{:.17e}", x));
    // `e+` variant
    if let Some(p) = e.find('e') {
        if !e[p + 1..].starts_with('-') {
            v.push(format!("{}e+{}", &e[..p], &e[p + 1..]));
        }
    }
    // leading-dot mantissa with an exponent: d.ddde±N == .ddddeN+1 (kept only if it parses back to x, checked below)
    if let Some(p) = e.find('e') {
        let (m, ex) = (&e[..p], &e[p + 1..]);
        if let Ok(n) = ex.parse::<i32>() {
            let digits: String = m.chars().filter(|c| *c != '.').collect();
            for form in [format!(".{}e{}", digits, n + 1), format!(".{}E{}", digits, n + 1), format!(".{}e{:+}", digits, n + 1), format!("0.{}e{}", digits, n + 1)] {
                if form.parse::<f64>().map(|p| p.to_bits()) == Ok(x.to_bits()) {
                    v.push(form);
                }
            }
        }
    }
    // positional notation where it stays short
    if x == 0.0 || (x >= 1e-5 && x < 1e20) {
        let pos = format!("{}", x);
        if pos.contains('.') {
            v.push(pos.clone());
            // leading-dot form
            if let Some(rest) = pos.strip_prefix("0.") {
                v.push(format!(".{}", rest));
            }
        } else {
            // trailing-dot and explicit .0 forms of an integral value
            v.push(format!("{}.", pos));
            v.push(format!("{}.0", pos));
        }
    }
    v.retain(|s| s.contains('.') || s.contains('e') || s.contains('E'));
    v.sort();
    v.dedup();
    v
}

struct Floats {
    fixed: Vec<f64>,
    random: u64,
}

fn check_float(out: &mut Out, x: f64) {
    out.begin(|| format!("float {:?}", x));
    out.nontrivial(&format!("float {:x}", x.to_bits()));
    let want = RV::Float(x);
    let c = |v: RV| Ast::Const(v);
    let b = |o: &'static str, l: Ast, rr: Ast| Ast::Bin(o, Box::new(l), Box::new(rr));
    let rs = float_renderings(x);
    for s in &rs {
        // our own renderer must be right before anything is asked of the implementation (self-check)
        match s.parse::<f64>() {
            Ok(p) if p.to_bits() == x.to_bits() => {},
            _ => {
                out.inconclusive(format!("renderer produced {:?} for {:?}", s, x));
                continue;
            },
        }
        expect_value(out, "float/rendering", s, &want);
        // embedded between other tokens without spaces (5e-3-2e-3, 0x1e-3, a-1e+2 style)
        expect_tree(out, "float/embedded", &format!("1+{}", s), &b("+", c(RV::Int(1)), c(want.clone())));
        expect_tree(out, "float/embedded", &format!("{}-1", s), &b("-", c(want.clone()), c(RV::Int(1))));
        expect_tree(out, "float/embedded", &format!("a-{}+2", s), &b("+", b("-", Ast::Read("a".into()), c(want.clone())), c(RV::Int(2))));
        expect_tree(out, "float/embedded", &format!("({})", s), &c(want.clone()));
        expect_tree(out, "float/embedded", &format!("{}-{}", s, s), &b("-", c(want.clone()), c(want.clone())));
        // two literals in one input whose text differs only in the sign of the exponent: each denotes its own value
        if let Some(p) = s.find(|ch| ch == 'e' || ch == 'E') {
            let (hd, rest) = s.split_at(p + 1);
            let twin = match rest.chars().next() {
                Some('-') => format!("{}+{}", hd, &rest[1..]),
                Some('+') => format!("{}-{}", hd, &rest[1..]),
                _ => format!("{}-{}", hd, rest),
            };
            if let Ok(y) = twin.parse::<f64>() {
                if y.is_finite() {
                    let w2 = RV::Float(y);
                    expect_tree(out, "float/two-literals", &format!("{},{}", s, twin), &Ast::Tuple(vec![c(want.clone()), c(w2.clone())]));
                    expect_tree(out, "float/two-literals", &format!("{} , {} , {}", twin, s, twin), &Ast::Tuple(vec![c(w2.clone()), c(want.clone()), c(w2.clone())]));
                    expect_tree(out, "float/two-literals", &format!("{}*{}", s, twin), &b("*", c(want.clone()), c(w2.clone())));
                }
            }
        }
        // at the end of a long program in which the literal's own `<mantissa>e` head was used as an identifier before
        let head = s.find(|ch| ch == 'e' || ch == 'E').map(|p| &s[..=p]);
        let head = head.filter(|h| matches!(classify_word(h), WordClass::MantissaE | WordClass::Ident));
        expect_value(out, "float/embedded", &format!("{}{}", long_prefix(head), s), &want);
        // a comment inside what would be a signed exponent separates: `1e-/**/3` and `1e/**/-3` are `1e` minus 3
        if let Some(p) = s.find(|ch| ch == 'e' || ch == 'E') {
            let (hd, rest) = s.split_at(p + 1);
            if let (Some(sign @ ('+' | '-')), WordClass::MantissaE) = (rest.chars().next(), classify_word(hd)) {
                if let Ok(d) = rest[1..].parse::<i64>() {
                    let op: &'static str = if sign == '+' { "+" } else { "-" };
                    let ast = b(op, Ast::Read(hd.to_string()), c(RV::Int(d)));
                    expect_tree(out, "float/comment-inside-exponent", &format!("{}{}/**/{}", hd, sign, &rest[1..]), &ast);
                    expect_tree(out, "float/comment-inside-exponent", &format!("{}/**/{}{}", hd, sign, &rest[1..]), &ast);
                    expect_tree(out, "float/comment-inside-exponent", &format!("{}{}//c\n{}", hd, sign, &rest[1..]), &ast);
                }
            }
        }
    }
    out.count_n("float renderings", rs.len() as u64);
    out.sample(|| format!("{:?} all denote Float({:?})", rs, x));
}

impl Phase for Floats {
    fn name(&self) -> String {
        "float literals: renderings x embeddings".into()
    }
    fn len(&self) -> u64 {
        self.fixed.len() as u64 + self.random
    }
    fn run(&mut self, idx: u64, r: &mut Rng, out: &mut Out) {
        let x = if (idx as usize) < self.fixed.len() {
            self.fixed[idx as usize]
        } else {
            loop {
                let f = match r.below(4) {
                    0 => (r.below(100_000) as f64) / [1.0, 8.0, 10.0, 1000.0][r.below(4)],
                    1 => r.int_bitlen().unsigned_abs() as f64,
                    _ => f64::from_bits(r.next() & 0x7fff_ffff_ffff_ffff),
                };
                if f.is_finite() && f >= 0.0 {
                    break f;
                }
            }
        };
        check_float(out, x);
    }
}

// ---------------------------------------------------------------------------------------------------

struct Words {
    fixed: Vec<String>,
    random: u64,
}

const WORD_CHARS: [char; 52] = [
    '\u{200b}', '\u{200c}', '\u{200d}', '\u{2060}', '\u{feff}', '\u{180e}', '\u{ad}', '”', '“', '＋', '＝', '．',
    'a', 'b', 'z', 'A', 'Z', '_', '.', ':', '#', '@', '$', '\'', '?', '~', '[', ']', '{', '}', '0', '1', '9', 'e', 'E',
    'x', 'X', 'ä', 'ß', '日', 'λ', 'é', '\u{301}', '😀', 'i', 'n', 'f', 't', 'r', 'u', '`', '\\',
];

const DIGITISH: [char; 22] = [':', '?', '@', '.', '_', 'e', 'E', 'x', 'a', 'f', '\'', '$', '#', '٣', '１', '²', '½', '〇', '०', '\u{200b}', 'o', 'b'];

fn check_word(out: &mut Out, w: &str) {
    if w.is_empty() || !w.chars().all(is_word_char) {
        return;
    }
    out.begin(|| format!("word {:?}", w));
    match classify_word(w) {
        WordClass::Ident | WordClass::MantissaE => {
            out.nontrivial(&format!("word {}", w));
            out.count("words that must be identifiers");
            // precompiles to a single variable read of exactly that name …
            expect_tree(out, "word/not-an-identifier", w, &Ast::Read(w.to_string()));
            // … and such a variable can be assigned and read back
            let mut c = Ctx::new();
            let _ = c.set_value(w.to_string(), RV::Int(41).to_value());
            let got = api::eval_str_mut(&format!("{} = {} + 1; {}", w, w, w), &mut c);
            out.eval();
            if !matches!(&got, Got::Val(RV::Int(42))) {
                out.violation("word/not-an-identifier", format!("{w} = {w} + 1; {w}  with {w} = 41"), "Ok(42i)".into(), got.show());
            }
            // … through the typed context-free entry points too, bare and negated (no entry point reads the word itself)
            for src in [w.to_string(), format!("-{}", w), format!(" {} ", w)] {
                let outcomes: Vec<(&str, String)> = vec![
                    ("eval_number", format!("{:?}", crate::observe::guard(|| evalexpr::eval_number(&src)).map_err(|p| api::panic_text(&p)))),
                    ("eval_float", format!("{:?}", crate::observe::guard(|| evalexpr::eval_float(&src)).map_err(|p| api::panic_text(&p)))),
                    ("eval_int", format!("{:?}", crate::observe::guard(|| evalexpr::eval_int(&src)).map_err(|p| api::panic_text(&p)))),
                    ("eval_boolean", format!("{:?}", crate::observe::guard(|| evalexpr::eval_boolean(&src)).map_err(|p| api::panic_text(&p)))),
                ];
                out.evals(4);
                let want = format!("Ok(Err(VariableIdentifierNotFound({:?})))", w);
                for (name, got) in outcomes {
                    if got != want {
                        out.violation("word/not-an-identifier", format!("{}({:?})", name, src), want.clone(), got);
                    }
                }
            }
            out.sample(|| format!("{:?} is an identifier", w));
        },
        WordClass::Bool(b) => expect_value(out, "word/boolean", w, &RV::Bool(b)),
        WordClass::Int(i) => expect_value(out, "int/decimal", w, &RV::Int(i)),
        WordClass::Float(f) => expect_value(out, "float/rendering", w, &RV::Float(f)),
        WordClass::Unclaimed => out.count("words outside the documented forms (skipped)"),
    }
}

impl Phase for Words {
    fn name(&self) -> String {
        "words: identifiers and near-literals".into()
    }
    fn len(&self) -> u64 {
        self.fixed.len() as u64 + self.random
    }
    fn run(&mut self, idx: u64, r: &mut Rng, out: &mut Out) {
        if (idx as usize) < self.fixed.len() {
            let w = self.fixed[idx as usize].clone();
            check_word(out, &w);
        } else {
            let w: String = if r.chance(1, 2) {
                let n = r.range(1, 8);
                (0..n).map(|_| *r.pick(&WORD_CHARS)).collect()
            } else {
                // mostly digits, with their ASCII and Unicode neighbours, up to 20 characters
                let n = r.range(1, 20);
                (0..n).map(|_| if r.chance(3, 4) { *r.pick(&['0', '1', '2', '7', '8', '9']) } else { *r.pick(&DIGITISH) }).collect()
            };
            check_word(out, &w);
        }
    }
}

pub fn selfcheck() -> Result<String, String> {
    use crate::refmodel::lex::lex;
    let one = |s: &str| lex(s).ok().and_then(|l| if l.toks.len() == 1 && !l.unclaimed { Some(l.toks[0].clone()) } else { None });
    let checks: [(&str, &str); 12] = [
        ("42", "Int(42)"),
        ("0x2a", "Int(42)"),
        ("0x2A", "Int(42)"),
        ("2.5", "Float(2.5)"),
        (".5", "Float(0.5)"),
        ("5.", "Float(5.0)"),
        ("1e3", "Float(1000.0)"),
        ("1E+3", "Float(1000.0)"),
        ("5e-3", "Float(0.005)"),
        ("true", "Bool(true)"),
        ("inf", "Ident(\"inf\")"),
        ("1e", "Ident(\"1e\")"),
    ];
    for (s, want) in checks {
        let got = one(s).map(|t| format!("{:?}", t)).unwrap_or_else(|| "<not one token>".into());
        if got != want {
            return Err(format!("reference lexer: {:?} is {} (expected {})", s, got, want));
        }
    }
    for x in [0.1f64, 5e-324, 1e300, 123456.75, 0.0, 4.0, 1e21] {
        for s in float_renderings(x) {
            if s.parse::<f64>().map(|p| p.to_bits()) != Ok(x.to_bits()) {
                return Err(format!("float renderer: {:?} does not denote {:?}", s, x));
            }
        }
    }
    Ok("reference lexer classifies 12 literal forms; float renderer round-trips".into())
}

pub fn phases(cfg: &Cfg) -> Vec<Box<dyn Phase>> {
    // a sample of code points: all ASCII, Latin-1, then a spread over the planes, operator chars and comment markers included
    let mut singles: Vec<char> = (0u32..0x250).filter_map(char::from_u32).collect();
    let mut cp = 0x250u32;
    while cp < 0x11_0000 && singles.len() < 2000 {
        if let Some(c) = char::from_u32(cp) {
            singles.push(c);
        }
        cp += 761;
    }
    for c in ['\u{d7ff}', '\u{e000}', '\u{fffd}', '\u{ffff}', '\u{10000}', '\u{10ffff}', '\u{200b}', '\u{feff}', '\u{2028}', '\u{2029}', '\u{85}'] {
        singles.push(c);
    }
    // everything that looks like a quote, a backslash, a slash or a star in some script; zero-width and format characters
    for c in "“”‘’‚‛„‟«»‹›＂＇｀´ʺ˝ˮ״′″‴〃〝〞〟＼⧵∖／⁄∕＊∗⁎\u{200c}\u{200d}\u{2060}\u{180e}\u{ad}\u{61c}\u{200e}\u{200f}\u{202a}\u{202e}\u{fe0f}\u{e0001}".chars() {
        singles.push(c);
    }
    let mut ints: Vec<i64> = vec![0, 1, 9, 10, 15, 16, 255, 256];
    for k in 1..63 {
        let p = 1i64 << k;
        ints.extend([p - 1, p, p + 1]);
    }
    ints.extend([i64::MAX - 1, i64::MAX]);
    let mut p10 = 10i64;
    for _ in 1..19 {
        ints.extend([p10 - 1, p10, p10 + 1]);
        p10 = p10.saturating_mul(10);
    }
    let mut floats: Vec<f64> = gen::float_pool().into_iter().filter(|f| f.is_finite() && !f.is_sign_negative()).collect();
    floats.extend([0.005, 0.002, 100.0, 1e5, 1e-5, 1e19, 1e20, 1e21, 1e22, 1e23, 123456789.125, 0.3, 2.2250738585072011e-308, 1.7976931348623157e308, 4.9406564584124654e-324, 9007199254740993.0]);
    let escape_chars: Vec<char> = (0x20u32..0x7f)
        .filter_map(char::from_u32)
        .chain(['\n', '\t', '\0', 'ä', '😀', '\u{2028}', '”', '“', '’', '＂', '＼', '\u{200b}', '\r'])
        .collect();
    let words: Vec<String> = [
        "inf", "Inf", "INF", "infinity", "Infinity", "INFINITY", "nan", "NaN", "NAN", "nAn", "1e", "1E", "1.5e", "0x", "0xg", "0X10", "0b1",
        "1.2.3", "truex", "True", "TRUE", "False", "e5", "E5", "_1", "1_000", "1e5x", "x1e5", ".e5", "1e1.5", "1f", "0x1.8", "५", "١٢٣",
        "a.b", "a::b", "math::pi", "$x", "@y", "x'", "q?", "~z", "[a]", "{b}", "#c", "été", "日本語", "λ", "tru", "fals", "nul", "i64", "1st",
        "0e", "00x1", "x0x", "e", "E", "e+", ".", "..", "._", "1..2", "a\u{200b}b", "\u{200b}", "x\u{feff}", "a\u{ad}b", "a\u{2060}b", "“a”", "１２", "1\u{200b}2",
        "ī", "н", "нx", "ȫ", "ш", "a١", "0x0x10", "0x0X1", "0x0x", "00x10", "0xx1", "0x_1", "0x1_", "0b101", "0o17", "1x0", "x0x1", "0x1p3", "0x1.0", "1e1e1", "1ee1", "12:30:45", "0000000?", "1234567:", "00000000:", "2024:01:01", "99999999?", "1:2", "12345678@",
        "١_٠٠٠", "１_０", "²_²", "1_000_000", "1_0", "1__0", "_1_", "1'000", "1٠", "٣.٥", "1e٣",
        "mod", "xor", "in", "is", "div", "and", "or", "not", "nil", "null", "none", "pi", "tau", "shl", "if", "then", "else", "let", "var", "fn", "return", "0o17", "0o755", "0b11", "0q1", "1f32", "1i64", "1u8", "1L",
    ]
    .iter()
    .map(|s| s.to_string())
    .collect();
    vec![
        Box::new(BoundarySizes),
        Box::new(Strings {
            singles,
            random: cfg.n(60_000, 12_000_000),
        }),
        Box::new(Escapes {
            chars: escape_chars,
            random: cfg.n(4_000, 800_000),
        }),
        Box::new(Ints {
            fixed: ints,
            random: cfg.n(40_000, 8_000_000),
        }),
        Box::new(Floats {
            fixed: floats,
            random: cfg.n(40_000, 8_000_000),
        }),
        Box::new(Words {
            fixed: words,
            random: cfg.n(60_000, 8_000_000),
        }),
    ]
}

//! Shared syntactic monitors: reference classification of a token sequence vs build_operator_tree
//! (C02 well-formed => exact tree; C13 ill-formed => rejected / never evaluates; C05 sequences).

use crate::api::{self, Built, Ctx, Got};
use crate::fw::Out;
use crate::observe::{self, FnModel};
use crate::refmodel::errs::ErrClass;
use crate::refmodel::lex::Tok;
use crate::refmodel::parse::{arity_ok, balanced, classify, from_node, node_sx, Ast, Class};
use crate::refmodel::value::RV;
use evalexpr::{ContextWithMutableVariables, Node};

#[derive(Clone, Copy, PartialEq)]
pub enum Want {
    /// C02: only well-formed inputs are judged
    WellFormed,
    /// C13: only ill-formed inputs (and parenthesis balance) are judged
    IllFormed,
    /// both (C05's token sweep judges well-formed sequences that contain a separator)
    Both,
}

/// identifiers occurring in a token list
pub fn idents(toks: &[Tok]) -> Vec<String> {
    let mut v: Vec<String> = Vec::new();
    for t in toks {
        if let Tok::Ident(n) = t {
            if !v.contains(n) {
                v.push(n.clone());
            }
        }
    }
    v
}

/// A small family of contexts in which a tree of correct arity is given every chance to evaluate: all
/// identifiers bound to ints / floats / booleans / strings / tuples, all functions to identity and to constants.
pub fn confirm_evaluates(tree: &Node, names: &[String]) -> Option<String> {
    let vals = [
        RV::Int(1),
        RV::Bool(true),
        RV::Str("s".into()),
        RV::Float(1.5),
        RV::Tuple(vec![RV::Int(1), RV::Int(2)]),
        RV::Empty,
    ];
    let log = observe::new_log();
    // text constants of the tree are bound as variable names too (an operator that takes a name from a value must not
    // find one)
    let mut names: Vec<String> = names.to_vec();
    for node in std::iter::once(tree).chain(tree.iter()) {
        if let evalexpr::Operator::Const { value: evalexpr::Value::String(s) } = node.operator() {
            if !names.contains(s) {
                names.push(s.clone());
            }
        }
    }
    let names = &names;
    for (vi, v) in vals.iter().enumerate() {
        for fm in [FnModel::Identity, FnModel::Const(v.to_value())] {
            let mut c = Ctx::new();
            for n in names {
                let _ = c.set_value(n.clone(), v.to_value());
                observe::register_fn(&mut c, n, fm.clone(), &log);
            }
            // names the alphabets do not contain but mutations may introduce
            for n in ["a", "b", "f", "x", "t"] {
                if !names.iter().any(|m| m == n) {
                    let _ = c.set_value(n.to_string(), v.to_value());
                    observe::register_fn(&mut c, n, fm.clone(), &log);
                }
            }
            // the read-only path first (it must not be more lenient than the mutable one), then the mutable path
            if let Got::Val(r) = api::eval_tree(tree, &c) {
                return Some(format!("value family #{} ({}) / functions {:?}: evaluates to {} through eval_with_context", vi, v.show(), fm, r.show()));
            }
            if let Got::Val(r) = api::eval_tree_mut(tree, &mut c) {
                return Some(format!("value family #{} ({}) / functions {:?}: evaluates to {}", vi, v.show(), fm, r.show()));
            }
        }
    }
    None
}

pub struct Verdict {
    pub class: Class,
    pub ast: Option<Ast>,
    pub tree: Option<Node>,
}

/// Judges one token sequence rendered as `src`. Returns the classification and, if it built, the tree.
pub fn judge(out: &mut Out, toks: &[Tok], src: &str, want: Want, prop_rule_prefix: &str) -> Verdict {
    let (mut class, ast) = classify(toks);
    // a word the documentation does not define (integer outside the 64-bit range, float overflowing to infinity) makes
    // the whole sequence unclaimed: the reference treats it as an identifier, which it need not be
    if toks.iter().any(|t| matches!(t, Tok::Ident(w) if crate::refmodel::lex::classify_word(w) == crate::refmodel::lex::WordClass::Unclaimed)) {
        class = Class::Unclaimed("word outside the documented literal forms");
    }
    let built = api::build(src);
    out.eval();
    match &class {
        Class::Well => out.count("class WELL"),
        Class::Ill(_) => out.count("class ILL"),
        Class::Unclaimed(_) => out.count("class UNCLAIMED (skipped)"),
    }
    // an ill-formed source is also rejected at the string level, whatever was evaluated just before — in particular a
    // well-formed source that differs from it only in blanks (`12` before `1 2`, `a == b` before `a = = b`)
    if let (Class::Ill(reason), true) = (&class, want != Want::WellFormed) {
        if toks.len() <= 4 || crate::rng::fnv(src.as_bytes()) % 4 == 0 {
            let stripped: String = src.chars().filter(|c| !c.is_whitespace()).collect();
            let doubled = src.replace(' ', "  ");
            for (k, sib) in [stripped, doubled].iter().enumerate() {
                let first = observe::guard(|| evalexpr::eval(sib));
                let got = api::lift(observe::guard(|| if k == 0 { evalexpr::eval(src) } else { evalexpr::eval_with_context_mut(src, &mut Ctx::new()) }));
                out.evals(2);
                out.count("ILL sources evaluated at string level right after a blank-variant sibling");
                if let Got::Val(v) = &got {
                    out.violation(
                        "ill-formed-evaluates",
                        format!("eval({:?}) and directly afterwards eval({:?})", sib, src),
                        format!("the second never evaluates successfully (ill-formed: {})", reason),
                        format!("first {} ; second Ok({})", match &first { Ok(r) => format!("{:?}", r), Err(_) => "panicked".into() }, v.show()),
                    );
                }
            }
        }
    }
    let mut tree_out = None;
    match (&class, &built) {
        (_, Built::Panic(p)) => {
            out.violation("panic", src.to_string(), "Ok or Err".into(), format!("build_operator_tree panicked {}", p));
        },
        (Class::Unclaimed(_), Built::Tree(t)) => tree_out = Some(t.clone()),
        (Class::Unclaimed(_), _) => {},
        (Class::Well, Built::Tree(t)) => {
            tree_out = Some(t.clone());
            if want != Want::IllFormed {
                let ast = ast.as_ref().unwrap();
                match from_node(t) {
                    Ok(got) if got.same(ast) => {},
                    Ok(got) => out.violation(
                        &format!("{}/tree-mismatch", prop_rule_prefix),
                        src.to_string(),
                        ast.sx(),
                        format!("{}   (raw tree {})", got.sx(), node_sx(t)),
                    ),
                    Err(why) => out.violation(
                        &format!("{}/tree-malformed", prop_rule_prefix),
                        src.to_string(),
                        ast.sx(),
                        format!("{} in {}", why, node_sx(t)),
                    ),
                }
            }
        },
        (Class::Well, Built::Err(c, d)) => {
            if want != Want::IllFormed {
                out.violation(
                    &format!("{}/well-formed-rejected", prop_rule_prefix),
                    src.to_string(),
                    format!("precompiles to {}", ast.as_ref().unwrap().sx()),
                    format!("Err({})", d),
                );
            } else if let ErrClass::Parse(k) = c {
                if k == "UnmatchedLBrace" || k == "UnmatchedRBrace" {
                    out.violation(
                        "balanced-reported-unbalanced",
                        src.to_string(),
                        "balanced parentheses are never reported as unmatched".into(),
                        format!("Err({})", d),
                    );
                }
            }
        },
        (Class::Ill(reason), Built::Tree(t)) => {
            tree_out = Some(t.clone());
            if want != Want::WellFormed {
                if !balanced(toks) {
                    out.violation(
                        "unbalanced-accepted",
                        src.to_string(),
                        "rejected when precompiled (unbalanced parentheses)".into(),
                        format!("precompiled to {}", node_sx(t)),
                    );
                } else if arity_ok(t) {
                    match confirm_evaluates(t, &idents(toks)) {
                        Some(how) => out.violation(
                            "ill-formed-evaluates",
                            src.to_string(),
                            format!("never evaluates successfully (ill-formed: {})", reason),
                            format!("tree {} — {}", node_sx(t), how),
                        ),
                        None => out.count("ILL, arity-correct tree, no succeeding context (unconfirmed, not reported)"),
                    }
                } else {
                    // a node with the wrong number of operands must make every evaluation fail (all nodes are
                    // evaluated eagerly): checked, not assumed
                    out.count("ILL accepted by the parser but with a wrong-arity node (must fail at evaluation)");
                    if let Some(how) = confirm_evaluates(t, &idents(toks)) {
                        out.violation(
                            "ill-formed-evaluates",
                            src.to_string(),
                            format!("never evaluates successfully (ill-formed: {}; the tree has a wrong-arity node)", reason),
                            format!("tree {} — {}", node_sx(t), how),
                        );
                    }
                }
            }
        },
        (Class::Ill(_), Built::Err(c, d)) => {
            if want != Want::WellFormed {
                out.count("ILL rejected at precompilation");
                if balanced(toks) {
                    if let ErrClass::Parse(k) = c {
                        if k == "UnmatchedLBrace" || k == "UnmatchedRBrace" {
                            out.violation(
                                "balanced-reported-unbalanced",
                                src.to_string(),
                                "balanced parentheses are never reported as unmatched".into(),
                                format!("Err({})", d),
                            );
                        }
                    }
                }
            }
        },
    }
    Verdict {
        class,
        ast,
        tree: tree_out,
    }
}

//! Observation: panic monitor, recording context, recording user functions, hook sinks.

use evalexpr::{
    Context, ContextWithMutableFunctions, ContextWithMutableVariables, DefaultNumericTypes, EvalexprError,
    EvalexprResult, Function, HashMapContext, IterateVariablesContext, Value,
};
use std::cell::RefCell;
use std::sync::{Arc, Mutex};

#[derive(Clone, Debug, Default)]
pub struct PanicInfo {
    pub location: String,
    pub message: String,
    pub in_harness: bool,
}

thread_local! {
    static LAST_PANIC: RefCell<Option<PanicInfo>> = const { RefCell::new(None) };
}

/// Installs the process-wide panic hook: it records (location, message) per thread and prints nothing.
pub fn install_panic_hook() {
    std::panic::set_hook(Box::new(|info| {
        let location = info
            .location()
            .map(|l| format!("{}:{}:{}", l.file(), l.line(), l.column()))
            .unwrap_or_else(|| "<unknown>".to_string());
        let message = if let Some(s) = info.payload().downcast_ref::<&str>() {
            s.to_string()
        } else if let Some(s) = info.payload().downcast_ref::<String>() {
            s.clone()
        } else {
            "<non-string panic payload>".to_string()
        };
        let harness_dir = env!("CARGO_MANIFEST_DIR");
        let in_harness = location.starts_with(harness_dir) || location.starts_with("src/");
        LAST_PANIC.with(|c| {
            *c.borrow_mut() = Some(PanicInfo {
                location,
                message,
                in_harness,
            })
        });
    }));
}

pub fn clear_last_panic() {
    LAST_PANIC.with(|c| *c.borrow_mut() = None);
}

pub fn last_panic() -> PanicInfo {
    LAST_PANIC.with(|c| c.borrow().clone()).unwrap_or_default()
}

/// Runs a call into the code under test; a panic becomes `Err(PanicInfo)`.
pub fn guard<T, F: FnOnce() -> T>(f: F) -> Result<T, PanicInfo> {
    match std::panic::catch_unwind(std::panic::AssertUnwindSafe(f)) {
        Ok(v) => Ok(v),
        Err(_) => {
            let p = last_panic();
            Err(p)
        },
    }
}

// ---------------------------------------------------------------------------------------------------
// Event log shared between a RecordingContext and the recording user functions registered in it.

#[derive(Clone, Debug, PartialEq)]
pub enum Event {
    /// Context::get_value(identifier) -> found?
    Get(String, bool),
    /// Context::call_function(identifier, argument) reached the context
    CtxCall(String, Value),
    /// a recording user function ran (name, argument)
    UserCall(String, Value),
    /// ContextWithMutableVariables::set_value(identifier, value) -> ok?
    Set(String, Value, bool),
    /// are_builtin_functions_disabled() was consulted
    BuiltinsQuery,
}

pub type Log = Arc<Mutex<Vec<Event>>>;

pub fn new_log() -> Log {
    Arc::new(Mutex::new(Vec::new()))
}

pub fn take_log(log: &Log) -> Vec<Event> {
    std::mem::take(&mut *log.lock().unwrap())
}

/// A context built only from the public traits, wrapping a HashMapContext and logging every call — what a
/// user-written context would see.
pub struct RecordingContext {
    pub inner: HashMapContext<DefaultNumericTypes>,
    pub log: Log,
}

impl RecordingContext {
    pub fn new(inner: HashMapContext<DefaultNumericTypes>, log: Log) -> Self {
        RecordingContext { inner, log }
    }
}

impl Context for RecordingContext {
    type NumericTypes = DefaultNumericTypes;

    fn get_value(&self, identifier: &str) -> Option<&Value> {
        let r = self.inner.get_value(identifier);
        self.log
            .lock()
            .unwrap()
            .push(Event::Get(identifier.to_string(), r.is_some()));
        r
    }

    fn call_function(&self, identifier: &str, argument: &Value) -> EvalexprResult<Value> {
        self.log
            .lock()
            .unwrap()
            .push(Event::CtxCall(identifier.to_string(), argument.clone()));
        self.inner.call_function(identifier, argument)
    }

    fn are_builtin_functions_disabled(&self) -> bool {
        self.log.lock().unwrap().push(Event::BuiltinsQuery);
        self.inner.are_builtin_functions_disabled()
    }

    fn set_builtin_functions_disabled(&mut self, disabled: bool) -> EvalexprResult<()> {
        self.inner.set_builtin_functions_disabled(disabled)
    }
}

impl ContextWithMutableVariables for RecordingContext {
    fn set_value(&mut self, identifier: String, value: Value) -> EvalexprResult<()> {
        let r = self.inner.set_value(identifier.clone(), value.clone());
        self.log
            .lock()
            .unwrap()
            .push(Event::Set(identifier, value, r.is_ok()));
        r
    }
}

impl IterateVariablesContext for RecordingContext {
    type VariableIterator<'a> = <HashMapContext<DefaultNumericTypes> as IterateVariablesContext>::VariableIterator<'a>;
    type VariableNameIterator<'a> =
        <HashMapContext<DefaultNumericTypes> as IterateVariablesContext>::VariableNameIterator<'a>;

    fn iter_variables(&self) -> Self::VariableIterator<'_> {
        self.inner.iter_variables()
    }
    fn iter_variable_names(&self) -> Self::VariableNameIterator<'_> {
        self.inner.iter_variable_names()
    }
}

/// A context with variables and functions whose `set_value` is the trait's default: every assignment must fail
/// with ContextNotMutable.
pub struct ReadOnlyContext {
    pub inner: HashMapContext<DefaultNumericTypes>,
}

impl Context for ReadOnlyContext {
    type NumericTypes = DefaultNumericTypes;
    fn get_value(&self, identifier: &str) -> Option<&Value> {
        self.inner.get_value(identifier)
    }
    fn call_function(&self, identifier: &str, argument: &Value) -> EvalexprResult<Value> {
        self.inner.call_function(identifier, argument)
    }
    fn are_builtin_functions_disabled(&self) -> bool {
        self.inner.are_builtin_functions_disabled()
    }
    fn set_builtin_functions_disabled(&mut self, disabled: bool) -> EvalexprResult<()> {
        self.inner.set_builtin_functions_disabled(disabled)
    }
}
impl ContextWithMutableVariables for ReadOnlyContext {}

/// How a modelled user function behaves; the reference evaluator implements the same table.
#[derive(Clone, Debug, PartialEq)]
pub enum FnModel {
    /// returns its argument
    Identity,
    /// returns ("user:<name>", argument)
    Marker,
    /// returns a fixed value
    Const(Value),
    /// fails with CustomMessage("fail <argument>")
    Fail,
    /// Int k -> Int(k % 5 - 2); anything else -> CustomMessage
    IntMap,
    /// Int k -> Boolean(k % 2 == 0)
    BoolMap,
    /// Int k -> String("s<k>")
    StrMap,
    /// Int k -> Float(k as f64 / 2.0)
    FloatMap,
    /// evaluates an expression of its own through the string entry points (re-entrancy), returns (argument, 3)
    Nested,
    /// a tuple -> its length; anything else -> the library's own ExpectedTuple error
    NeedsTuple,
    /// fails with FunctionIdentifierNotFound(<that other name>), as a function does that evaluates something itself
    FailNotFound(&'static str),
    /// evaluates `<its own name>(5)` through a string entry point in a context of its own, where that name is bound to
    /// a marker function (builtins enabled), and returns what that gives: ("user:<name>", 5)
    SameNameInner,
    /// Int k in 0..=80: evaluates `deep(k - 1) + 1` through a string entry point in a context of its own (k nested
    /// evaluations on one thread) and so returns k; anything else: CustomMessage
    Deep,
}

pub fn apply_fn_model(name: &str, m: &FnModel, arg: &Value) -> Result<Value, EvalexprError> {
    match m {
        FnModel::Identity => Ok(arg.clone()),
        FnModel::Marker => Ok(Value::Tuple(vec![
            Value::String(format!("user:{}", name)),
            arg.clone(),
        ])),
        FnModel::Const(v) => Ok(v.clone()),
        FnModel::Fail => Err(EvalexprError::CustomMessage(format!("fail {}", arg))),
        FnModel::IntMap => match arg {
            Value::Int(k) => Ok(Value::Int(k.rem_euclid(5) - 2)),
            _ => Err(EvalexprError::CustomMessage("model function: not an int".to_string())),
        },
        FnModel::BoolMap => match arg {
            Value::Int(k) => Ok(Value::Boolean(k.rem_euclid(2) == 0)),
            _ => Err(EvalexprError::CustomMessage("model function: not an int".to_string())),
        },
        FnModel::StrMap => match arg {
            Value::Int(k) => Ok(Value::String(format!("s{}", k))),
            _ => Err(EvalexprError::CustomMessage("model function: not an int".to_string())),
        },
        FnModel::FloatMap => match arg {
            Value::Int(k) => Ok(Value::Float(*k as f64 / 2.0)),
            _ => Err(EvalexprError::CustomMessage("model function: not an int".to_string())),
        },
        FnModel::Nested => {
            // a user function may use the library itself (the monitor's own sinks are switched off meanwhile: the
            // nested evaluation is not part of the trace under observation)
            let prev_eval = evalexpr::verif::set_eval_sink(None);
            let prev_parse = evalexpr::verif::set_parser_sink(None);
            let inner = evalexpr::eval("q = 1; q + 2");
            let _ = evalexpr::eval_int("1 +");
            evalexpr::verif::set_eval_sink(prev_eval);
            evalexpr::verif::set_parser_sink(prev_parse);
            Ok(Value::Tuple(vec![arg.clone(), inner?]))
        },
        FnModel::NeedsTuple => match arg {
            Value::Tuple(t) => Ok(Value::Int(t.len() as i64)),
            other => Err(EvalexprError::expected_tuple(other.clone())),
        },
        FnModel::FailNotFound(inner) => Err(EvalexprError::FunctionIdentifierNotFound(inner.to_string())),
        FnModel::SameNameInner => {
            let mut c = HashMapContext::<DefaultNumericTypes>::new();
            let n = name.to_string();
            c.set_function(name.to_string(), Function::new(move |v: &Value| apply_fn_model(&n, &FnModel::Marker, v)))
                .expect("HashMapContext::set_function cannot fail");
            let prev_eval = evalexpr::verif::set_eval_sink(None);
            let prev_parse = evalexpr::verif::set_parser_sink(None);
            let r = evalexpr::eval_with_context(&format!("{}(5)", name), &c);
            evalexpr::verif::set_eval_sink(prev_eval);
            evalexpr::verif::set_parser_sink(prev_parse);
            r
        },
        FnModel::Deep => match arg {
            Value::Int(0) => Ok(Value::Int(0)),
            Value::Int(k) if (1..=80).contains(k) => {
                let mut c = HashMapContext::<DefaultNumericTypes>::new();
                c.set_function("deep".into(), Function::new(|v: &Value| apply_fn_model("deep", &FnModel::Deep, v)))
                    .expect("HashMapContext::set_function cannot fail");
                let prev_eval = evalexpr::verif::set_eval_sink(None);
                let prev_parse = evalexpr::verif::set_parser_sink(None);
                let r = evalexpr::eval_int_with_context(&format!("deep({}) + 1", k - 1), &c);
                evalexpr::verif::set_eval_sink(prev_eval);
                evalexpr::verif::set_parser_sink(prev_parse);
                r.map(Value::Int)
            },
            _ => Err(EvalexprError::CustomMessage("deep: not an int in 0..=80".to_string())),
        },
    }
}

/// State owned by value by a user function; cloning the function (with its context) clones the state.
#[derive(Default)]
pub struct Counter(pub std::sync::atomic::AtomicI64);

impl Clone for Counter {
    fn clone(&self) -> Self {
        Counter(std::sync::atomic::AtomicI64::new(self.0.load(std::sync::atomic::Ordering::SeqCst)))
    }
}

/// Registers `name` as a function that returns 1, 2, 3, … on successive calls (per context: clones count on their own).
pub fn register_counter(ctx: &mut HashMapContext<DefaultNumericTypes>, name: &str) {
    let counter = Counter::default();
    ctx.set_function(
        name.to_string(),
        Function::new(move |_| {
            let whole: &Counter = &counter;
            Ok(Value::Int(whole.0.fetch_add(1, std::sync::atomic::Ordering::SeqCst) + 1))
        }),
    )
    .expect("HashMapContext::set_function cannot fail");
}

/// Registers a recording user function `name` with behaviour `m` in `ctx`; every call is appended to `log`.
pub fn register_fn(ctx: &mut HashMapContext<DefaultNumericTypes>, name: &str, m: FnModel, log: &Log) {
    let l = log.clone();
    let n = name.to_string();
    ctx.set_function(
        name.to_string(),
        Function::new(move |v: &Value| {
            l.lock().unwrap().push(Event::UserCall(n.clone(), v.clone()));
            apply_fn_model(&n, &m, v)
        }),
    )
    .expect("HashMapContext::set_function cannot fail");
}

// ---------------------------------------------------------------------------------------------------
// Hook sinks (feature verif-hooks of evalexpr).

pub use evalexpr::verif::{EvalEvent, EvalEventKind, StackEntryShape};

thread_local! {
    static EVAL_LOG: RefCell<Vec<EvalEvent>> = const { RefCell::new(Vec::new()) };
    static PARSER_LOG: RefCell<Vec<Vec<StackEntryShape>>> = const { RefCell::new(Vec::new()) };
}

pub fn start_eval_trace() {
    EVAL_LOG.with(|l| l.borrow_mut().clear());
    evalexpr::verif::set_eval_sink(Some(Box::new(|e| EVAL_LOG.with(|l| l.borrow_mut().push(e)))));
}

pub fn stop_eval_trace() -> Vec<EvalEvent> {
    evalexpr::verif::set_eval_sink(None);
    EVAL_LOG.with(|l| std::mem::take(&mut *l.borrow_mut()))
}

pub fn start_parser_trace() {
    PARSER_LOG.with(|l| l.borrow_mut().clear());
    evalexpr::verif::set_parser_sink(Some(Box::new(|s| {
        PARSER_LOG.with(|l| l.borrow_mut().push(s.to_vec()))
    })));
}

pub fn stop_parser_trace() -> Vec<Vec<StackEntryShape>> {
    evalexpr::verif::set_parser_sink(None);
    PARSER_LOG.with(|l| std::mem::take(&mut *l.borrow_mut()))
}

pub fn shape_signature(stack: &[StackEntryShape]) -> String {
    let mut s = String::new();
    for e in stack {
        if !s.is_empty() {
            s.push(' ');
        }
        s.push_str(&e.operator);
        s.push_str(&e.children.min(3).to_string());
    }
    s
}

//! Guarded access to the public API of evalexpr: every call into the code under test goes through `guard`,
//! and results are lifted to the abstraction the reference model speaks (RV / ErrClass).

use crate::observe::{guard, register_fn, Log, PanicInfo};
use crate::refmodel::errs::{classify, ErrClass};
use crate::refmodel::eval::Model;
use crate::refmodel::value::RV;
use evalexpr::{
    build_operator_tree, Context, ContextWithMutableVariables, DefaultNumericTypes, EvalexprError, HashMapContext,
    IterateVariablesContext, Node, Value,
};
use std::collections::BTreeMap;

pub type Ctx = HashMapContext<DefaultNumericTypes>;

#[derive(Clone, Debug)]
pub enum Got {
    Val(RV),
    Err(ErrClass, String),
    Panic(String),
}

impl Got {
    pub fn show(&self) -> String {
        match self {
            Got::Val(v) => format!("Ok({})", v.show()),
            Got::Err(c, d) => format!("Err({} / {})", c.show(), crate::fw::clip(d, 300)),
            Got::Panic(p) => format!("PANIC {}", p),
        }
    }
    pub fn lifted(&self) -> Option<Result<RV, ErrClass>> {
        match self {
            Got::Val(v) => Some(Ok(v.clone())),
            Got::Err(c, _) => Some(Err(c.clone())),
            Got::Panic(_) => None,
        }
    }
    pub fn is_panic(&self) -> bool {
        matches!(self, Got::Panic(_))
    }
    /// structural identity of two observations of the implementation (NaN-aware, through Debug text)
    pub fn same(&self, o: &Got) -> bool {
        match (self, o) {
            (Got::Val(a), Got::Val(b)) => a.same(b),
            (Got::Err(_, a), Got::Err(_, b)) => a == b,
            _ => false,
        }
    }
}

pub fn panic_text(p: &PanicInfo) -> String {
    format!("at {}: {}", p.location, p.message)
}

pub fn lift(r: Result<Result<Value, EvalexprError>, PanicInfo>) -> Got {
    match r {
        Ok(Ok(v)) => Got::Val(RV::from_value(&v)),
        Ok(Err(e)) => Got::Err(classify(&e), format!("{:?}", e)),
        Err(p) => Got::Panic(panic_text(&p)),
    }
}

pub enum Built {
    Tree(Node),
    Err(ErrClass, String),
    Panic(String),
}

pub fn build(src: &str) -> Built {
    match guard(|| build_operator_tree::<DefaultNumericTypes>(src)) {
        Ok(Ok(t)) => Built::Tree(t),
        Ok(Err(e)) => Built::Err(classify(&e), format!("{:?}", e)),
        Err(p) => Built::Panic(panic_text(&p)),
    }
}

pub fn eval_str_mut<C: ContextWithMutableVariables + Context<NumericTypes = DefaultNumericTypes>>(
    src: &str,
    c: &mut C,
) -> Got {
    lift(guard(|| evalexpr::eval_with_context_mut(src, c)))
}

pub fn eval_str<C: Context<NumericTypes = DefaultNumericTypes>>(src: &str, c: &C) -> Got {
    lift(guard(|| evalexpr::eval_with_context(src, c)))
}

pub fn eval_tree_mut<C: ContextWithMutableVariables + Context<NumericTypes = DefaultNumericTypes>>(
    t: &Node,
    c: &mut C,
) -> Got {
    lift(guard(|| t.eval_with_context_mut(c)))
}

pub fn eval_tree<C: Context<NumericTypes = DefaultNumericTypes>>(t: &Node, c: &C) -> Got {
    lift(guard(|| t.eval_with_context(c)))
}

thread_local! {
    static CASE: std::cell::Cell<(u64, u64)> = const { std::cell::Cell::new((1, 0)) };
}

thread_local! {
    static FINDINGS: std::cell::RefCell<Vec<(String, String, String, String)>> = const { std::cell::RefCell::new(Vec::new()) };
}

/// what the context builders observed while preparing the case: (rule, input, expected, observed); drained by the framework
pub fn take_findings() -> Vec<(String, String, String, String)> {
    FINDINGS.with(|f| std::mem::take(&mut *f.borrow_mut()))
}

/// called by the framework before every case: contexts built for the case are a function of this salt
pub fn begin_case(salt: u64) {
    CASE.with(|c| c.set((salt | 1, 0)));
}

/// An empty context with a past: the given names and the usual assignment targets were bound (to a tuple, a boolean, a
/// string — types the programs rarely assign to them first), then everything was cleared.
pub fn used_then_cleared(names: &[&str], whole: bool) -> Ctx {
    let mut c = Ctx::new();
    let usual = ["a", "b", "c", "d", "x", "y", "z", "t", "u", "v", "w", "q", "n", "s", "r", "i", "j", "k", "v1", "v2", "w1", "w2", "x1", "total"];
    for (i, n) in names.iter().chain(usual.iter()).enumerate() {
        let v = match i % 3 {
            0 => Value::Tuple(vec![Value::Int(1), Value::Boolean(false)]),
            1 => Value::Boolean(true),
            _ => Value::String("before".into()),
        };
        let _ = c.set_value(n.to_string(), v);
    }
    if whole {
        c.clear();
    } else {
        c.clear_variables();
    }
    c
}

/// Builds a real HashMapContext holding exactly what the model holds. Recording functions log to `log`.
pub fn ctx_from_model(m: &Model, log: &Log) -> Ctx {
    // one time in three the context has a past: names were bound to values of other types and then cleared, which leaves
    // an empty context like a new one (a function of the case and of the number of contexts built for it so far, so that
    // a replay builds the same contexts)
    let h = CASE.with(|c| {
        let (salt, calls) = c.get();
        c.set((salt, calls + 1));
        salt.wrapping_add(calls.wrapping_mul(0x9E37_79B9_7F4A_7C15)) >> 7
    });
    let mut c = if h % 3 == 0 {
        let names: Vec<&str> = m.vars.keys().map(|k| k.as_str()).collect();
        used_then_cleared(&names, h / 3 % 2 == 0)
    } else {
        Ctx::new()
    };
    let had_past = h % 3 == 0;
    let mut rebuilt = false;
    for (k, v) in &m.vars {
        match c.set_value(k.clone(), v.to_value()) {
            Ok(()) => {},
            Err(e) if had_past => {
                // not a harness fault: the cleared context is not the empty context it reports to be
                FINDINGS.with(|f| {
                    f.borrow_mut().push((
                        "context-with-cleared-past/set_value".to_string(),
                        format!("names bound to values of other types, then {}, then set_value({:?}, {})", if h / 3 % 2 == 0 { "clear()" } else { "clear_variables()" }, k, v.show()),
                        "Ok(()) as in a new context (the variable listing is empty)".to_string(),
                        format!("Err({:?})", e),
                    ))
                });
                rebuilt = true;
                break;
            },
            Err(e) => panic!("set_value into a fresh context cannot fail: {:?}", e),
        }
    }
    if rebuilt {
        c = Ctx::new();
        for (k, v) in &m.vars {
            c.set_value(k.clone(), v.to_value()).expect("set_value into a fresh context cannot fail");
        }
    }
    for (k, f) in &m.funs {
        register_fn(&mut c, k, f.clone(), log);
    }
    if m.builtins_off {
        c.set_builtin_functions_disabled(true)
            .expect("HashMapContext builtin switch cannot fail");
    }
    c
}

/// the variable map of a context as the iterators report it
pub fn ctx_vars<C: IterateVariablesContext<NumericTypes = DefaultNumericTypes>>(c: &C) -> BTreeMap<String, RV> {
    c.iter_variables().map(|(k, v)| (k, RV::from_value(&v))).collect()
}

pub fn show_vars(v: &BTreeMap<String, RV>) -> String {
    format!(
        "{{{}}}",
        v.iter().map(|(k, v)| format!("{}={}", k, v.show())).collect::<Vec<_>>().join(", ")
    )
}

pub fn same_vars(a: &BTreeMap<String, RV>, b: &BTreeMap<String, RV>) -> bool {
    a.len() == b.len() && a.iter().zip(b.iter()).all(|((k, x), (l, y))| k == l && x.same(y))
}

//! evxmon — runtime monitors for evalexpr (properties C01..C16).
//!
//! usage: evxmon run <Cxx> --tier quick|thorough --seed N --shard I --nshards N --out PATH
//!                 [--start PHASE:IDX] [--careful] [--only PHASENAME:IDX] [--scale F]
//!        evxmon merge-distinct FILE...     (prints the number of distinct hashes in the union)
//!        evxmon phases <Cxx> --tier ...    (lists phases and their sizes)

#![allow(dead_code)]
mod api;
mod fw;
mod gen;
mod observe;
mod props;
mod refmodel;
mod rng;

use fw::Cfg;

fn main() {
    let args: Vec<String> = std::env::args().collect();
    if args.len() < 2 {
        eprintln!("usage: evxmon run|phases|merge-distinct ...");
        std::process::exit(2);
    }
    match args[1].as_str() {
        "merge-distinct" => {
            let mut all: Vec<u64> = Vec::new();
            for f in &args[2..] {
                if let Ok(b) = std::fs::read(f) {
                    for c in b.chunks_exact(8) {
                        let mut a = [0u8; 8];
                        a.copy_from_slice(c);
                        all.push(u64::from_le_bytes(a));
                    }
                }
            }
            all.sort_unstable();
            all.dedup();
            println!("{}", all.len());
        },
        "run" | "phases" => {
            let cfg = parse_cfg(&args);
            observe::install_panic_hook();
            // deep recursion of the reference and of the code under test: run on a thread with the stack size of
            // the Linux main thread default (8 MiB) unless told otherwise
            let stack = std::env::var("EVX_STACK_MIB").ok().and_then(|s| s.parse::<usize>().ok()).unwrap_or(8);
            let list_only = args[1] == "phases";
            let h = std::thread::Builder::new()
                .stack_size(stack << 20)
                .spawn(move || {
                    let (phases, selfcheck) = props::build(&cfg);
                    if list_only {
                        for p in &phases {
                            println!("{}\t{}\t{}", p.name(), p.len(), if p.exhaustive() { "exhaustive" } else { "random" });
                        }
                        return 0;
                    }
                    fw::run_phases(&cfg, phases, selfcheck)
                })
                .expect("spawn");
            let code = h.join().unwrap_or(3);
            std::process::exit(code);
        },
        "explain" => {
            // diagnosis aid: how the reference reads a source text, and what the implementation builds from it
            observe::install_panic_hook();
            for src in &args[2..] {
                match refmodel::lex::lex(src) {
                    Ok(l) => {
                        let (class, ast) = refmodel::parse::classify(&l.toks);
                        println!("source   {:?}\ntokens   {:?} (unclaimed word: {})\nclass    {:?}\nast      {}", src, l.toks, l.unclaimed, class, ast.map(|a| a.sx()).unwrap_or_default());
                    },
                    Err(e) => println!("source   {:?}\nlexer    {:?}", src, e),
                }
                match api::build(src) {
                    api::Built::Tree(t) => println!("built    {:?}\neval     {}", t, api::eval_str_mut(src, &mut api::Ctx::new()).show()),
                    api::Built::Err(_, d) => println!("built    Err({})", d),
                    api::Built::Panic(p) => println!("built    PANIC {}", p),
                }
            }
        },
        other => {
            eprintln!("unknown command {}", other);
            std::process::exit(2);
        },
    }
}

fn parse_cfg(args: &[String]) -> Cfg {
    let mut cfg = Cfg {
        property: args.get(2).cloned().unwrap_or_default(),
        thorough: false,
        seed: 1,
        shard: 0,
        nshards: 1,
        start: (0, 0),
        careful: false,
        only: None,
        out: "/tmp/evxmon-out".to_string(),
        scale: 1.0,
    };
    let mut i = 3;
    while i < args.len() {
        let a = args[i].as_str();
        let v = args.get(i + 1).cloned().unwrap_or_default();
        match a {
            "--tier" => {
                cfg.thorough = v == "thorough";
                i += 1;
            },
            "--seed" => {
                cfg.seed = v.parse().unwrap_or(1);
                i += 1;
            },
            "--shard" => {
                cfg.shard = v.parse().unwrap_or(0);
                i += 1;
            },
            "--nshards" => {
                cfg.nshards = v.parse::<u64>().unwrap_or(1).max(1);
                i += 1;
            },
            "--out" => {
                cfg.out = v;
                i += 1;
            },
            "--scale" => {
                cfg.scale = v.parse().unwrap_or(1.0);
                i += 1;
            },
            "--start" => {
                let mut it = v.split(':');
                let p = it.next().and_then(|s| s.parse().ok()).unwrap_or(0);
                let x = it.next().and_then(|s| s.parse().ok()).unwrap_or(0);
                cfg.start = (p, x);
                i += 1;
            },
            "--only" => {
                if let Some(pos) = v.rfind(':') {
                    cfg.only = Some((v[..pos].to_string(), v[pos + 1..].parse().unwrap_or(0)));
                }
                i += 1;
            },
            "--careful" => cfg.careful = true,
            _ => {},
        }
        i += 1;
    }
    cfg
}

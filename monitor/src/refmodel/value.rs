//! The reference model's own value type, independent of evalexpr's `Value` (and of its derived PartialEq).

use evalexpr::Value;

#[derive(Clone, Debug)]
pub enum RV {
    Str(String),
    Float(f64),
    Int(i64),
    Bool(bool),
    Tuple(Vec<RV>),
    Empty,
    /// a value variant this harness does not know (future evalexpr versions); never equal to anything
    Other(String),
}

#[derive(Clone, Copy, Debug, PartialEq, Eq, Hash, PartialOrd, Ord)]
pub enum Ty {
    Str,
    Float,
    Int,
    Bool,
    Tuple,
    Empty,
    Other,
}

impl RV {
    pub fn ty(&self) -> Ty {
        match self {
            RV::Str(_) => Ty::Str,
            RV::Float(_) => Ty::Float,
            RV::Int(_) => Ty::Int,
            RV::Bool(_) => Ty::Bool,
            RV::Tuple(_) => Ty::Tuple,
            RV::Empty => Ty::Empty,
            RV::Other(_) => Ty::Other,
        }
    }

    pub fn num(&self) -> Option<f64> {
        match self {
            RV::Int(i) => Some(*i as f64),
            RV::Float(f) => Some(*f),
            _ => None,
        }
    }

    pub fn from_value(v: &Value) -> RV {
        #[allow(unreachable_patterns)]
        match v {
            Value::String(s) => RV::Str(s.clone()),
            Value::Float(f) => RV::Float(*f),
            Value::Int(i) => RV::Int(*i),
            Value::Boolean(b) => RV::Bool(*b),
            Value::Tuple(t) => RV::Tuple(t.iter().map(RV::from_value).collect()),
            Value::Empty => RV::Empty,
            other => RV::Other(format!("{:?}", other)),
        }
    }

    pub fn to_value(&self) -> Value {
        match self {
            RV::Str(s) => Value::String(s.clone()),
            RV::Float(f) => Value::Float(*f),
            RV::Int(i) => Value::Int(*i),
            RV::Bool(b) => Value::Boolean(*b),
            RV::Tuple(t) => Value::Tuple(t.iter().map(|x| x.to_value()).collect()),
            RV::Empty => Value::Empty,
            RV::Other(s) => Value::String(format!("<other {}>", s)),
        }
    }

    /// Identity of observations: floats by bit pattern, any NaN equals any NaN, recursively through tuples.
    pub fn same(&self, other: &RV) -> bool {
        match (self, other) {
            (RV::Str(a), RV::Str(b)) => a == b,
            (RV::Float(a), RV::Float(b)) => a.to_bits() == b.to_bits() || (a.is_nan() && b.is_nan()),
            (RV::Int(a), RV::Int(b)) => a == b,
            (RV::Bool(a), RV::Bool(b)) => a == b,
            (RV::Tuple(a), RV::Tuple(b)) => a.len() == b.len() && a.iter().zip(b).all(|(x, y)| x.same(y)),
            (RV::Empty, RV::Empty) => true,
            _ => false,
        }
    }

    /// The language's `==`: structural; Int(1) != Float(1.0); NaN != NaN; -0.0 == 0.0; tuples element-wise.
    pub fn lang_eq(&self, other: &RV) -> bool {
        match (self, other) {
            (RV::Str(a), RV::Str(b)) => a == b,
            (RV::Float(a), RV::Float(b)) => a == b,
            (RV::Int(a), RV::Int(b)) => a == b,
            (RV::Bool(a), RV::Bool(b)) => a == b,
            (RV::Tuple(a), RV::Tuple(b)) => a.len() == b.len() && a.iter().zip(b).all(|(x, y)| x.lang_eq(y)),
            (RV::Empty, RV::Empty) => true,
            _ => false,
        }
    }

    /// Short, unambiguous rendering for reports and hashing.
    pub fn show(&self) -> String {
        match self {
            RV::Str(s) => format!("{:?}", s),
            RV::Float(f) => {
                if f.is_nan() {
                    "NaN".to_string()
                } else {
                    format!("{:?}f", f)
                }
            },
            RV::Int(i) => format!("{}i", i),
            RV::Bool(b) => format!("{}", b),
            RV::Tuple(t) => format!("({})", t.iter().map(|x| x.show()).collect::<Vec<_>>().join(", ")),
            RV::Empty => "Empty".to_string(),
            RV::Other(s) => format!("Other({})", s),
        }
    }

    /// Source text of a literal expression denoting this value, if the language can express it
    /// (non-negative ints, finite floats (negative ones as `(-x)`), strings, booleans, `()`, tuples of length >= 2).
    pub fn literal(&self) -> Option<String> {
        match self {
            RV::Str(s) => Some(quote(s)),
            RV::Float(f) => {
                if !f.is_finite() {
                    None
                } else if f.is_sign_negative() {
                    Some(format!("(-{:?})", -f))
                } else {
                    Some(format!("{:?}", f))
                }
            },
            RV::Int(i) => {
                if *i >= 0 {
                    Some(format!("{}", i))
                } else if *i != i64::MIN {
                    Some(format!("(-{})", -i))
                } else {
                    None
                }
            },
            RV::Bool(b) => Some(format!("{}", b)),
            RV::Tuple(t) => {
                if t.len() < 2 {
                    return None;
                }
                let mut parts = Vec::new();
                for x in t {
                    parts.push(x.literal()?);
                }
                Some(format!("({})", parts.join(", ")))
            },
            RV::Empty => Some("()".to_string()),
            RV::Other(_) => None,
        }
    }
}

/// `quote(t)`: a double-quoted literal in which `\` and `"` are backslash-escaped.
pub fn quote(s: &str) -> String {
    let mut o = String::with_capacity(s.len() + 2);
    o.push('"');
    for c in s.chars() {
        if c == '"' || c == '\\' {
            o.push('\\');
        }
        o.push(c);
    }
    o.push('"');
    o
}

pub fn show_result(r: &Result<RV, String>) -> String {
    match r {
        Ok(v) => format!("Ok({})", v.show()),
        Err(e) => format!("Err({})", e),
    }
}

pub mod builtins;
pub mod errs;
pub mod eval;
pub mod lex;
pub mod parse;
pub mod value;

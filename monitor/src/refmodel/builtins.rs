//! Reference builtins, written from the README's function table.

use super::value::RV;

pub const BUILTINS: [&str; 49] = [
    "math::ln", "math::log", "math::log2", "math::log10", "math::exp", "math::exp2", "math::pow", "math::cos",
    "math::acos", "math::cosh", "math::acosh", "math::sin", "math::asin", "math::sinh", "math::asinh",
    "math::tan", "math::atan", "math::tanh", "math::atanh", "math::atan2", "math::sqrt", "math::cbrt",
    "math::hypot", "floor", "round", "ceil", "math::is_nan", "math::is_finite", "math::is_infinite",
    "math::is_normal", "math::abs", "typeof", "min", "max", "if", "contains", "contains_any", "len",
    "str::to_lowercase", "str::to_uppercase", "str::trim", "str::from", "str::substring", "bitand", "bitor",
    "bitxor", "bitnot", "shl", "shr",
];

pub fn is_builtin(name: &str) -> bool {
    BUILTINS.contains(&name)
}

#[derive(Clone, Debug)]
pub enum Exp {
    /// exactly this value (floats bit for bit, NaN = NaN)
    V(RV),
    /// some error
    Err,
    /// not claimed: any non-panicking outcome
    Any,
    /// any one of these expectations
    Alt(Vec<Exp>),
    /// a string that renders this value; float parts only have to parse back to the same bits
    Rendering(RV),
    /// an error, or some contiguous piece of this string (never a made-up value)
    ErrOrPieceOf(String),
}

impl Exp {
    pub fn is_exact(&self) -> bool {
        matches!(self, Exp::V(_) | Exp::Err)
    }
    pub fn show(&self) -> String {
        match self {
            Exp::V(v) => format!("value {}", v.show()),
            Exp::Err => "an error".into(),
            Exp::Any => "anything (unclaimed)".into(),
            Exp::Alt(v) => format!("one of [{}]", v.iter().map(|e| e.show()).collect::<Vec<_>>().join(" | ")),
            Exp::Rendering(v) => format!("a string rendering {}", v.show()),
            Exp::ErrOrPieceOf(s) => format!("an error or a contiguous piece of {:?}", s),
        }
    }
    /// does the observed outcome (Ok(value) / Err) satisfy the expectation?
    pub fn accepts(&self, got: &Result<RV, ()>) -> bool {
        match (self, got) {
            (Exp::Any, _) => true,
            (Exp::Err, Err(())) => true,
            (Exp::V(v), Ok(g)) => v.same(g),
            (Exp::Alt(v), g) => v.iter().any(|e| e.accepts(g)),
            (Exp::Rendering(v), Ok(RV::Str(s))) => match_render(v, s),
            (Exp::ErrOrPieceOf(_), Err(())) => true,
            (Exp::ErrOrPieceOf(whole), Ok(RV::Str(s))) => whole.contains(s.as_str()),
            _ => false,
        }
    }
}

fn args(v: &RV, n: usize) -> Option<&Vec<RV>> {
    match v {
        RV::Tuple(t) if t.len() == n => Some(t),
        _ => None,
    }
}
fn f1(v: &RV, f: fn(f64) -> f64) -> Exp {
    match v.num() {
        Some(x) => Exp::V(RV::Float(f(x))),
        None => Exp::Err,
    }
}
fn f2(v: &RV, f: fn(f64, f64) -> f64) -> Exp {
    match args(v, 2) {
        Some(t) => match (t[0].num(), t[1].num()) {
            (Some(a), Some(b)) => Exp::V(RV::Float(f(a, b))),
            _ => Exp::Err,
        },
        None => Exp::Err,
    }
}
fn p1(v: &RV, f: fn(f64) -> bool) -> Exp {
    match v.num() {
        Some(x) => Exp::V(RV::Bool(f(x))),
        None => Exp::Err,
    }
}
fn i2(v: &RV, f: fn(i64, i64) -> Exp) -> Exp {
    match args(v, 2) {
        Some(t) => match (&t[0], &t[1]) {
            (RV::Int(a), RV::Int(b)) => f(*a, *b),
            _ => Exp::Err,
        },
        None => Exp::Err,
    }
}
fn simple(v: &RV) -> bool {
    matches!(v, RV::Str(_) | RV::Int(_) | RV::Float(_) | RV::Bool(_))
}
fn contains(h: &[RV], n: &RV) -> bool {
    h.iter().any(|x| x.lang_eq(n))
}

fn minmax(v: &RV, min: bool) -> Exp {
    let xs: Vec<RV> = match v {
        RV::Tuple(t) => t.clone(),
        RV::Int(_) | RV::Float(_) => vec![v.clone()],
        _ => return Exp::Err,
    };
    if xs.is_empty() {
        return Exp::Any; // min of an explicit empty tuple: undocumented
    }
    if xs.iter().any(|x| x.num().is_none()) {
        return Exp::Err;
    }
    if xs.iter().any(|x| x.num().unwrap().is_nan()) {
        return Exp::Any; // not claimed in the presence of NaN
    }
    // `y` is strictly better than `x`: two integers compare exactly, anything involving a float compares as the
    // language's own mixed comparison does (both converted to f64), so an int and a float that tie after conversion
    // are both acceptable answers
    let better = |y: &RV, x: &RV| -> bool {
        match (y, x) {
            (RV::Int(a), RV::Int(b)) => {
                if min {
                    a < b
                } else {
                    a > b
                }
            },
            _ => {
                let (a, b) = (y.num().unwrap(), x.num().unwrap());
                if min {
                    a < b
                } else {
                    a > b
                }
            },
        }
    };
    // an argument (type kept) such that no argument is strictly better
    let ok: Vec<Exp> = xs.iter().filter(|x| !xs.iter().any(|y| better(y, x))).cloned().map(Exp::V).collect();
    if ok.is_empty() {
        // the mixed relation is not transitive; if it leaves no candidate, nothing is claimed
        return Exp::Any;
    }
    Exp::Alt(ok)
}

/// rendering documented by the pinned test: ("a", 3.3, 3, (42, 4.2), (), true); top-level strings unquoted
pub fn render(v: &RV, top: bool) -> String {
    match v {
        RV::Str(s) => {
            if top {
                s.clone()
            } else {
                format!("\"{}\"", s)
            }
        },
        RV::Float(f) => format!("{}", f),
        RV::Int(i) => format!("{}", i),
        RV::Bool(b) => format!("{}", b),
        RV::Empty => "()".into(),
        RV::Tuple(t) => format!("({})", t.iter().map(|x| render(x, false)).collect::<Vec<_>>().join(", ")),
        RV::Other(s) => s.clone(),
    }
}

fn has_float(v: &RV) -> bool {
    match v {
        RV::Float(_) => true,
        RV::Tuple(t) => t.iter().any(has_float),
        _ => false,
    }
}
fn has_quoted_special(v: &RV, top: bool) -> bool {
    match v {
        RV::Str(s) => !top && (s.contains('"') || s.contains('\\')),
        RV::Tuple(t) => t.iter().any(|x| has_quoted_special(x, false)),
        _ => false,
    }
}

/// Does `s` render `v` in the documented format, where a float may be printed in any way that parses back to
/// the same bits?
pub fn match_render(v: &RV, s: &str) -> bool {
    fn go<'a>(v: &RV, s: &'a str, top: bool) -> Option<&'a str> {
        match v {
            RV::Float(f) => {
                let end = s
                    .char_indices()
                    .find(|(_, c)| !(c.is_ascii_alphanumeric() || *c == '+' || *c == '-' || *c == '.'))
                    .map(|(i, _)| i)
                    .unwrap_or(s.len());
                let p: f64 = s[..end].parse().ok()?;
                if p.to_bits() == f.to_bits() || (p.is_nan() && f.is_nan()) {
                    Some(&s[end..])
                } else {
                    None
                }
            },
            RV::Tuple(t) => {
                let mut rest = s.strip_prefix('(')?;
                for (i, x) in t.iter().enumerate() {
                    if i > 0 {
                        rest = rest.strip_prefix(", ")?;
                    }
                    rest = go(x, rest, false)?;
                }
                rest.strip_prefix(')')
            },
            other => s.strip_prefix(render(other, top).as_str()),
        }
    }
    matches!(go(v, s, true), Some(""))
}

fn substring(v: &RV) -> Exp {
    let t = match v {
        RV::Tuple(t) if t.len() == 2 || t.len() == 3 => t,
        _ => return Exp::Err,
    };
    let s = match &t[0] {
        RV::Str(s) => s,
        _ => return Exp::Err,
    };
    let a = match &t[1] {
        RV::Int(a) => *a,
        _ => return Exp::Err,
    };
    let b = match t.get(2) {
        Some(RV::Int(b)) => Some(*b),
        None => None,
        _ => return Exp::Err,
    };
    // byte unit
    let bytes = {
        let b = b.unwrap_or(s.len() as i64);
        if a < 0 || b < 0 || a > b || b as usize > s.len() {
            Exp::Err
        } else if !s.is_char_boundary(a as usize) || !s.is_char_boundary(b as usize) {
            // how a byte index inside a character is answered is not documented — but not with a made-up value
            Exp::ErrOrPieceOf(s.clone())
        } else {
            Exp::V(RV::Str(s[a as usize..b as usize].to_string()))
        }
    };
    if s.is_ascii() {
        return bytes;
    }
    // character unit (only consistency of len / substring is claimed; the matrix accepts either unit, the
    // consistency phase of C10 pins the unit from the observed len)
    let chars = {
        let n = s.chars().count() as i64;
        let b = b.unwrap_or(n);
        if a < 0 || b < 0 || a > b || b > n {
            Exp::Err
        } else {
            Exp::V(RV::Str(s.chars().skip(a as usize).take((b - a) as usize).collect()))
        }
    };
    Exp::Alt(vec![bytes, chars])
}

pub fn reference(name: &str, v: &RV) -> Option<Exp> {
    Some(match name {
        "math::ln" => f1(v, f64::ln),
        "math::log" => f2(v, f64::log),
        "math::log2" => f1(v, f64::log2),
        "math::log10" => f1(v, f64::log10),
        "math::exp" => f1(v, f64::exp),
        "math::exp2" => f1(v, f64::exp2),
        "math::pow" => f2(v, f64::powf),
        "math::cos" => f1(v, f64::cos),
        "math::acos" => f1(v, f64::acos),
        "math::cosh" => f1(v, f64::cosh),
        "math::acosh" => f1(v, f64::acosh),
        "math::sin" => f1(v, f64::sin),
        "math::asin" => f1(v, f64::asin),
        "math::sinh" => f1(v, f64::sinh),
        "math::asinh" => f1(v, f64::asinh),
        "math::tan" => f1(v, f64::tan),
        "math::atan" => f1(v, f64::atan),
        "math::tanh" => f1(v, f64::tanh),
        "math::atanh" => f1(v, f64::atanh),
        "math::atan2" => f2(v, f64::atan2),
        "math::sqrt" => f1(v, f64::sqrt),
        "math::cbrt" => f1(v, f64::cbrt),
        "math::hypot" => f2(v, f64::hypot),
        "floor" => f1(v, f64::floor),
        "round" => f1(v, f64::round),
        "ceil" => f1(v, f64::ceil),
        "math::is_nan" => p1(v, f64::is_nan),
        "math::is_finite" => p1(v, f64::is_finite),
        "math::is_infinite" => p1(v, f64::is_infinite),
        "math::is_normal" => p1(v, f64::is_normal),
        "math::abs" => match v {
            RV::Float(f) => Exp::V(RV::Float(f.abs())),
            RV::Int(i) => match i.checked_abs() {
                Some(r) => Exp::V(RV::Int(r)),
                None => Exp::Err,
            },
            _ => Exp::Err,
        },
        "typeof" => Exp::V(RV::Str(
            match v {
                RV::Str(_) => "string",
                RV::Float(_) => "float",
                RV::Int(_) => "int",
                RV::Bool(_) => "boolean",
                RV::Tuple(_) => "tuple",
                RV::Empty => "empty",
                RV::Other(_) => return Some(Exp::Any),
            }
            .into(),
        )),
        "min" => minmax(v, true),
        "max" => minmax(v, false),
        "if" => match args(v, 3) {
            Some(t) => match &t[0] {
                RV::Bool(c) => Exp::V(if *c { t[1].clone() } else { t[2].clone() }),
                _ => Exp::Err,
            },
            None => Exp::Err,
        },
        "contains" => match args(v, 2) {
            Some(t) => match (&t[0], &t[1]) {
                (RV::Tuple(h), n) if simple(n) => Exp::V(RV::Bool(contains(h, n))),
                // README: "any non-tuple"; the code restricts to string/int/float/boolean: both accepted
                (RV::Tuple(h), RV::Empty) => Exp::Alt(vec![Exp::Err, Exp::V(RV::Bool(contains(h, &RV::Empty)))]),
                _ => Exp::Err,
            },
            None => Exp::Err,
        },
        "contains_any" => match args(v, 2) {
            Some(t) => match (&t[0], &t[1]) {
                (RV::Tuple(h), RV::Tuple(ns)) => {
                    let any = RV::Bool(ns.iter().any(|n| contains(h, n)));
                    if ns.iter().any(|n| matches!(n, RV::Tuple(_))) {
                        Exp::Err
                    } else if ns.iter().any(|n| matches!(n, RV::Empty)) {
                        Exp::Alt(vec![Exp::Err, Exp::V(any)])
                    } else {
                        Exp::V(any)
                    }
                },
                _ => Exp::Err,
            },
            None => Exp::Err,
        },
        "len" => match v {
            RV::Str(s) => {
                if s.is_ascii() {
                    Exp::V(RV::Int(s.len() as i64))
                } else {
                    Exp::Alt(vec![Exp::V(RV::Int(s.len() as i64)), Exp::V(RV::Int(s.chars().count() as i64))])
                }
            },
            RV::Tuple(t) => Exp::V(RV::Int(t.len() as i64)),
            _ => Exp::Err,
        },
        "str::to_lowercase" => match v {
            RV::Str(s) => Exp::V(RV::Str(s.to_lowercase())),
            _ => Exp::Err,
        },
        "str::to_uppercase" => match v {
            RV::Str(s) => Exp::V(RV::Str(s.to_uppercase())),
            _ => Exp::Err,
        },
        "str::trim" => match v {
            RV::Str(s) => Exp::V(RV::Str(s.trim().to_string())),
            _ => Exp::Err,
        },
        "str::from" => {
            if has_quoted_special(v, true) {
                Exp::Any // escaping inside the quoted form of a tuple element is not documented
            } else if has_float(v) {
                Exp::Rendering(v.clone())
            } else {
                Exp::V(RV::Str(render(v, true)))
            }
        },
        "str::substring" => substring(v),
        "bitand" => i2(v, |a, b| Exp::V(RV::Int(a & b))),
        "bitor" => i2(v, |a, b| Exp::V(RV::Int(a | b))),
        "bitxor" => i2(v, |a, b| Exp::V(RV::Int(a ^ b))),
        "bitnot" => match v {
            RV::Int(a) => Exp::V(RV::Int(!a)),
            _ => Exp::Err,
        },
        "shl" => i2(v, |a, b| {
            if !(0..64).contains(&b) {
                return Exp::Any;
            }
            let exact = (a as i128) << b;
            if exact >= i64::MIN as i128 && exact <= i64::MAX as i128 {
                Exp::V(RV::Int(exact as i64))
            } else {
                // the mathematical result does not fit: the wrapped value or an error, never another value
                Exp::Alt(vec![Exp::Err, Exp::V(RV::Int(a.wrapping_shl(b as u32)))])
            }
        }),
        "shr" => i2(v, |a, b| {
            if !(0..64).contains(&b) {
                return Exp::Any;
            }
            // arithmetic shift = floor(a / 2^b)
            Exp::V(RV::Int(((a as i128).div_euclid(1i128 << b)) as i64))
        }),
        _ => return None,
    })
}

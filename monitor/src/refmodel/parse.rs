//! Reference parser (Pratt) over reference tokens, written from the README precedence table, plus the
//! classification WELL / ILL / UNCLAIMED used by C02, C05, C13, C14, and the AST renderer.

use super::lex::{Tok, ASSIGNOPS, BINOPS};
use super::value::RV;
use crate::rng::Rng;
use evalexpr::{Node, Operator};

#[derive(Clone, Debug)]
pub enum Ast {
    Empty,
    Const(RV),
    Read(String),
    Call(String, Box<Ast>),
    /// "neg" | "!"
    Un(&'static str, Box<Ast>),
    Bin(&'static str, Box<Ast>, Box<Ast>),
    /// operator, target identifier, right-hand side
    Assign(&'static str, String, Box<Ast>),
    Tuple(Vec<Ast>),
    Chain(Vec<Ast>),
    /// parenthesised sub-expression (stripped before comparison)
    Group(Box<Ast>),
    Missing,
}

pub fn bin_prec(op: &str) -> i32 {
    match op {
        "^" => 120,
        "*" | "/" | "%" => 100,
        "+" | "-" => 95,
        "<" | ">" | "<=" | ">=" | "==" | "!=" => 80,
        "&&" => 75,
        "||" => 70,
        _ => -1,
    }
}

fn static_bin(op: &str) -> Option<&'static str> {
    BINOPS.iter().copied().find(|o| *o == op)
}
fn static_assign(op: &str) -> Option<&'static str> {
    ASSIGNOPS.iter().copied().find(|o| *o == op)
}

impl Ast {
    pub fn strip(&self) -> Ast {
        match self {
            Ast::Group(x) => x.strip(),
            Ast::Call(f, a) => Ast::Call(f.clone(), Box::new(a.strip())),
            Ast::Un(o, a) => Ast::Un(o, Box::new(a.strip())),
            Ast::Bin(o, a, b) => Ast::Bin(o, Box::new(a.strip()), Box::new(b.strip())),
            Ast::Assign(o, t, b) => Ast::Assign(o, t.clone(), Box::new(b.strip())),
            Ast::Tuple(v) => Ast::Tuple(v.iter().map(|x| x.strip()).collect()),
            Ast::Chain(v) => Ast::Chain(v.iter().map(|x| x.strip()).collect()),
            other => other.clone(),
        }
    }

    pub fn same(&self, o: &Ast) -> bool {
        match (self, o) {
            (Ast::Empty, Ast::Empty) => true,
            (Ast::Const(a), Ast::Const(b)) => a.same(b),
            (Ast::Read(a), Ast::Read(b)) => a == b,
            (Ast::Call(f, a), Ast::Call(g, b)) => f == g && a.same(b),
            (Ast::Un(p, a), Ast::Un(q, b)) => p == q && a.same(b),
            (Ast::Bin(p, a, b), Ast::Bin(q, c, d)) => p == q && a.same(c) && b.same(d),
            (Ast::Assign(p, t, a), Ast::Assign(q, u, b)) => p == q && t == u && a.same(b),
            (Ast::Tuple(a), Ast::Tuple(b)) | (Ast::Chain(a), Ast::Chain(b)) => {
                a.len() == b.len() && a.iter().zip(b).all(|(x, y)| x.same(y))
            },
            (Ast::Group(a), Ast::Group(b)) => a.same(b),
            _ => false,
        }
    }

    /// s-expression for reports and hashing
    pub fn sx(&self) -> String {
        match self {
            Ast::Empty => "E".into(),
            Ast::Const(v) => format!("c:{}", v.show()),
            Ast::Read(n) => format!("r:{}", n),
            Ast::Call(f, a) => format!("(f:{} {})", f, a.sx()),
            Ast::Un(o, a) => format!("({} {})", o, a.sx()),
            Ast::Bin(o, a, b) => format!("({} {} {})", o, a.sx(), b.sx()),
            Ast::Assign(o, t, b) => format!("({} w:{} {})", o, t, b.sx()),
            Ast::Tuple(v) => format!("(, {})", v.iter().map(|x| x.sx()).collect::<Vec<_>>().join(" ")),
            Ast::Chain(v) => format!("(; {})", v.iter().map(|x| x.sx()).collect::<Vec<_>>().join(" ")),
            Ast::Group(a) => format!("(G {})", a.sx()),
            Ast::Missing => "MISSING".into(),
        }
    }

    pub fn node_count(&self) -> usize {
        match self {
            Ast::Call(_, a) | Ast::Un(_, a) | Ast::Group(a) | Ast::Assign(_, _, a) => 1 + a.node_count(),
            Ast::Bin(_, a, b) => 1 + a.node_count() + b.node_count(),
            Ast::Tuple(v) | Ast::Chain(v) => 1 + v.iter().map(|x| x.node_count()).sum::<usize>(),
            _ => 1,
        }
    }

    pub fn has_assign(&self) -> bool {
        match self {
            Ast::Assign(..) => true,
            Ast::Call(_, a) | Ast::Un(_, a) | Ast::Group(a) => a.has_assign(),
            Ast::Bin(_, a, b) => a.has_assign() || b.has_assign(),
            Ast::Tuple(v) | Ast::Chain(v) => v.iter().any(|x| x.has_assign()),
            _ => false,
        }
    }
}

#[derive(Clone, Debug, PartialEq)]
pub enum Class {
    Well,
    /// ill-formed for one of the reasons C13 names
    Ill(&'static str),
    /// the documentation does not define it
    Unclaimed(&'static str),
}

struct P<'a> {
    t: &'a [Tok],
    i: usize,
    ill: Option<&'static str>,
    unc: Option<&'static str>,
}

fn starts_operand(t: Option<&Tok>) -> bool {
    match t {
        Some(t) => t.is_literal() || t.is_ident() || t.is_op("("),
        None => false,
    }
}
fn is_sep_or_close(t: Option<&Tok>) -> bool {
    match t {
        None => true,
        Some(t) => t.is_op(",") || t.is_op(";") || t.is_op(")"),
    }
}
fn bin_of(t: Option<&Tok>) -> Option<&'static str> {
    match t.map(|t| t.inner()) {
        Some(Tok::Op(o)) => static_bin(o),
        _ => None,
    }
}
fn assign_of(t: Option<&Tok>) -> Option<&'static str> {
    match t.map(|t| t.inner()) {
        Some(Tok::Op(o)) => static_assign(o),
        _ => None,
    }
}
fn const_of(t: &Tok) -> Option<RV> {
    match t.inner() {
        Tok::Int(i) => Some(RV::Int(*i)),
        Tok::Float(f) => Some(RV::Float(*f)),
        Tok::Bool(b) => Some(RV::Bool(*b)),
        Tok::Str(s) => Some(RV::Str(s.clone())),
        _ => None,
    }
}

impl<'a> P<'a> {
    fn peek(&self) -> Option<&'a Tok> {
        self.t.get(self.i)
    }
    fn nx(&mut self) -> Option<&'a Tok> {
        let t = self.t.get(self.i);
        self.i += 1;
        t
    }
    fn set_ill(&mut self, r: &'static str) {
        if self.ill.is_none() {
            self.ill = Some(r);
        }
    }
    fn set_unc(&mut self, r: &'static str) {
        if self.unc.is_none() {
            self.unc = Some(r);
        }
    }

    fn chain(&mut self) -> Ast {
        let mut el = vec![self.tuple()];
        while self.peek().map_or(false, |t| t.is_op(";")) {
            self.nx();
            el.push(self.tuple());
        }
        if el.len() == 1 {
            el.pop().unwrap()
        } else {
            Ast::Chain(el)
        }
    }

    fn tuple(&mut self) -> Ast {
        let mut el = vec![self.elem()];
        while self.peek().map_or(false, |t| t.is_op(",")) {
            self.nx();
            el.push(self.elem());
        }
        if el.len() == 1 {
            el.pop().unwrap()
        } else {
            Ast::Tuple(el)
        }
    }

    fn elem(&mut self) -> Ast {
        if is_sep_or_close(self.peek()) {
            return Ast::Empty;
        }
        let e = self.expr(0, false);
        while !is_sep_or_close(self.peek()) {
            // a complete expression followed by something that is not a separator: two operands side by side
            self.set_ill("juxtaposition");
            let before = self.i;
            self.expr(0, false);
            if self.i == before {
                self.i += 1;
            }
        }
        e
    }

    fn expr(&mut self, minbp: i32, in_exp_rhs: bool) -> Ast {
        let mut lhs = self.prefix(in_exp_rhs);
        loop {
            let t = self.peek();
            if let Some(op) = bin_of(t) {
                let p = bin_prec(op);
                if p >= minbp {
                    self.nx();
                    let rhs = self.expr(p + 1, op == "^");
                    lhs = Ast::Bin(op, Box::new(lhs), Box::new(rhs));
                    continue;
                }
                return lhs;
            }
            if let Some(op) = assign_of(t) {
                if 50 >= minbp {
                    self.nx();
                    let target = match &lhs {
                        Ast::Read(n) => n.clone(),
                        // no left operand at all: that is a missing operand (ill-formed, already noted), not a
                        // question of what may be assigned to
                        Ast::Missing => "<missing>".to_string(),
                        _ => {
                            self.set_unc("assignment target is not a bare identifier");
                            "<non-identifier>".to_string()
                        },
                    };
                    let rhs;
                    if op == "=" {
                        rhs = self.expr(50, false);
                        if let Ast::Assign(o2, _, _) = &rhs {
                            if *o2 != "=" {
                                self.set_unc("mixed assignment chain");
                            }
                        }
                    } else {
                        rhs = self.expr(51, false);
                        if assign_of(self.peek()).is_some() {
                            self.set_unc("mixed assignment chain");
                        }
                    }
                    lhs = Ast::Assign(op, target, Box::new(rhs));
                    continue;
                }
                return lhs;
            }
            return lhs;
        }
    }

    fn prefix(&mut self, in_exp_rhs: bool) -> Ast {
        let t = self.peek();
        let missing = match t {
            None => true,
            Some(t) => {
                t.is_op(")")
                    || t.is_op(",")
                    || t.is_op(";")
                    || (bin_of(Some(t)).is_some() && !t.is_op("-"))
                    || assign_of(Some(t)).is_some()
            },
        };
        if missing {
            self.set_ill("missing operand");
            return Ast::Missing;
        }
        let t = self.nx().unwrap();
        if t.is_op("-") || t.is_op("!") {
            let name = if t.is_op("-") { "neg" } else { "!" };
            let opnd = self.expr(110, false);
            if in_exp_rhs {
                let inner_exp = matches!(&opnd, Ast::Bin(o, _, _) if *o == "^");
                if inner_exp || self.peek().map_or(false, |t| t.is_op("^")) {
                    self.set_unc("prefix operator as right operand of ^ followed by ^");
                }
            }
            return Ast::Un(name, Box::new(opnd));
        }
        if t.is_op("(") {
            let inner = self.chain();
            if self.peek().map_or(false, |t| t.is_op(")")) {
                self.nx();
            } else {
                self.set_ill("unbalanced parentheses");
            }
            return Ast::Group(Box::new(inner));
        }
        if let Some(c) = const_of(t) {
            return Ast::Const(c);
        }
        if let Tok::Ident(name) = t.inner() {
            if starts_operand(self.peek()) {
                let arg = self.callarg();
                return Ast::Call(name.clone(), Box::new(arg));
            }
            return Ast::Read(name.clone());
        }
        self.set_ill("stray token");
        Ast::Missing
    }

    fn callarg(&mut self) -> Ast {
        let t = match self.nx() {
            Some(t) => t,
            None => return Ast::Missing,
        };
        if t.is_op("(") {
            let inner = self.chain();
            if self.peek().map_or(false, |t| t.is_op(")")) {
                self.nx();
            } else {
                self.set_ill("unbalanced parentheses");
            }
            return Ast::Group(Box::new(inner));
        }
        if let Some(c) = const_of(t) {
            return Ast::Const(c);
        }
        if let Tok::Ident(name) = t.inner() {
            if starts_operand(self.peek()) {
                let arg = self.callarg();
                return Ast::Call(name.clone(), Box::new(arg));
            }
            return Ast::Read(name.clone());
        }
        Ast::Missing
    }
}

/// Classifies a token sequence and returns the (stripped) AST if it is well-formed.
pub fn classify(toks: &[Tok]) -> (Class, Option<Ast>) {
    let mut p = P {
        t: toks,
        i: 0,
        ill: None,
        unc: None,
    };
    let a = p.chain();
    if p.peek().is_some() {
        // only a `)` can stop the top-level chain
        p.set_ill("unbalanced parentheses");
    }
    if let Some(u) = p.unc {
        return (Class::Unclaimed(u), None);
    }
    if let Some(i) = p.ill {
        return (Class::Ill(i), None);
    }
    (Class::Well, Some(a.strip()))
}

pub fn balanced(toks: &[Tok]) -> bool {
    let mut d: i64 = 0;
    for t in toks {
        if t.is_op("(") {
            d += 1;
        }
        if t.is_op(")") {
            d -= 1;
            if d < 0 {
                return false;
            }
        }
    }
    d == 0
}

// -----------------------------------------------------------------------------------------------------
// Implementation tree -> AST

pub fn op_name(o: &Operator) -> String {
    use Operator::*;
    #[allow(unreachable_patterns)]
    match o {
        RootNode => "R".into(),
        Add => "+".into(),
        Sub => "-".into(),
        Neg => "neg".into(),
        Mul => "*".into(),
        Div => "/".into(),
        Mod => "%".into(),
        Exp => "^".into(),
        Eq => "==".into(),
        Neq => "!=".into(),
        Gt => ">".into(),
        Lt => "<".into(),
        Geq => ">=".into(),
        Leq => "<=".into(),
        And => "&&".into(),
        Or => "||".into(),
        Not => "!".into(),
        Assign => "=".into(),
        AddAssign => "+=".into(),
        SubAssign => "-=".into(),
        MulAssign => "*=".into(),
        DivAssign => "/=".into(),
        ModAssign => "%=".into(),
        ExpAssign => "^=".into(),
        AndAssign => "&&=".into(),
        OrAssign => "||=".into(),
        Tuple => ",".into(),
        Chain => ";".into(),
        Const { value } => format!("c:{}", RV::from_value(value).show()),
        VariableIdentifierWrite { identifier } => format!("w:{}", identifier),
        VariableIdentifierRead { identifier } => format!("r:{}", identifier),
        FunctionIdentifier { identifier } => format!("f:{}", identifier),
        other => format!("?{:?}", other),
    }
}

/// s-expression of an implementation tree, RootNode wrappers shown as `R`
pub fn node_sx(n: &Node) -> String {
    if n.children().is_empty() {
        return op_name(n.operator());
    }
    format!(
        "({} {})",
        op_name(n.operator()),
        n.children().iter().map(node_sx).collect::<Vec<_>>().join(" ")
    )
}

/// Converts an implementation tree to an AST, stripping RootNode wrappers
/// (0 children => Empty, 1 child => the child). Err = the tree has a shape no well-formed program has.
pub fn from_node(n: &Node) -> Result<Ast, String> {
    use Operator::*;
    let kids = n.children();
    let need = |k: usize| -> Result<(), String> {
        if kids.len() == k {
            Ok(())
        } else {
            Err(format!("operator {} has {} children, wants {}", op_name(n.operator()), kids.len(), k))
        }
    };
    #[allow(unreachable_patterns)]
    match n.operator() {
        RootNode => match kids.len() {
            0 => Ok(Ast::Empty),
            1 => from_node(&kids[0]),
            k => Err(format!("root node with {} children", k)),
        },
        Neg | Not => {
            need(1)?;
            Ok(Ast::Un(if *n.operator() == Neg { "neg" } else { "!" }, Box::new(from_node(&kids[0])?)))
        },
        Add | Sub | Mul | Div | Mod | Exp | Eq | Neq | Gt | Lt | Geq | Leq | And | Or => {
            need(2)?;
            let name = op_name(n.operator());
            let op = static_bin(&name).ok_or_else(|| format!("unknown binary operator {}", name))?;
            Ok(Ast::Bin(op, Box::new(from_node(&kids[0])?), Box::new(from_node(&kids[1])?)))
        },
        Assign | AddAssign | SubAssign | MulAssign | DivAssign | ModAssign | ExpAssign | AndAssign | OrAssign => {
            need(2)?;
            let name = op_name(n.operator());
            let op = static_assign(&name).ok_or_else(|| format!("unknown assignment operator {}", name))?;
            let target = match kids[0].operator() {
                VariableIdentifierWrite { identifier } if kids[0].children().is_empty() => identifier.clone(),
                other => return Err(format!("assignment target is {}", op_name(other))),
            };
            Ok(Ast::Assign(op, target, Box::new(from_node(&kids[1])?)))
        },
        Tuple => Ok(Ast::Tuple(kids.iter().map(from_node).collect::<Result<Vec<_>, _>>()?)),
        Chain => Ok(Ast::Chain(kids.iter().map(from_node).collect::<Result<Vec<_>, _>>()?)),
        Const { value } => {
            need(0)?;
            Ok(Ast::Const(RV::from_value(value)))
        },
        VariableIdentifierRead { identifier } => {
            need(0)?;
            Ok(Ast::Read(identifier.clone()))
        },
        VariableIdentifierWrite { identifier } => Err(format!("write identifier {} outside an assignment", identifier)),
        FunctionIdentifier { identifier } => {
            need(1)?;
            Ok(Ast::Call(identifier.clone(), Box::new(from_node(&kids[0])?)))
        },
        other => Err(format!("unknown operator {:?}", other)),
    }
}

/// True iff every node of the implementation tree has the number of children its operator requires
/// (binary 2, prefix / call 1, leaves 0, tuple / chain any, root <= 1) — the arity table of C13.
pub fn arity_ok(n: &Node) -> bool {
    use Operator::*;
    let k = n.children().len();
    #[allow(unreachable_patterns)]
    let ok = match n.operator() {
        RootNode => k <= 1,
        Neg | Not | FunctionIdentifier { .. } => k == 1,
        Tuple | Chain => true,
        Const { .. } | VariableIdentifierRead { .. } | VariableIdentifierWrite { .. } => k == 0,
        Add | Sub | Mul | Div | Mod | Exp | Eq | Neq | Gt | Lt | Geq | Leq | And | Or | Assign | AddAssign
        | SubAssign | MulAssign | DivAssign | ModAssign | ExpAssign | AndAssign | OrAssign => k == 2,
        _ => true,
    };
    ok && n.children().iter().all(arity_ok)
}

// -----------------------------------------------------------------------------------------------------
// AST -> tokens (RefRender for ASTs)

#[derive(Clone, Copy, Debug, PartialEq)]
pub enum Parens {
    /// exactly the parentheses the table requires (plus those where the documentation is ambiguous)
    Minimal,
    /// every non-atomic sub-expression parenthesised
    Full,
    /// required ones plus random redundant ones
    Random,
}

fn ast_prec(a: &Ast) -> i32 {
    match a {
        Ast::Empty | Ast::Const(_) | Ast::Read(_) | Ast::Group(_) | Ast::Missing => 200,
        Ast::Call(..) => 190,
        Ast::Un(..) => 110,
        Ast::Bin(o, _, _) => bin_prec(o),
        Ast::Assign(..) => 50,
        Ast::Tuple(_) => 40,
        Ast::Chain(_) => 0,
    }
}

fn const_tok(v: &RV) -> Tok {
    match v {
        RV::Int(i) => Tok::Int(*i),
        RV::Float(f) => Tok::Float(*f),
        RV::Bool(b) => Tok::Bool(*b),
        RV::Str(s) => Tok::Str(s.clone()),
        _ => Tok::Ident("<unrenderable>".into()),
    }
}

pub struct Renderer<'r> {
    pub mode: Parens,
    pub rng: Option<&'r mut Rng>,
    /// allow `f x` / `f 1` / `f g x` call forms (chosen randomly when an rng is present, else never)
    pub juxtapose_calls: bool,
}

impl<'r> Renderer<'r> {
    fn coin(&mut self, num: usize, den: usize) -> bool {
        match &mut self.rng {
            Some(r) => r.chance(num, den),
            None => false,
        }
    }

    pub fn render(&mut self, a: &Ast) -> Vec<Tok> {
        let mut out = Vec::new();
        self.emit(a, 0, true, &mut out);
        out
    }

    /// `seq_slot`: the expression stands directly in an element slot of a tuple/chain/parenthesis/top level,
    /// where the empty value may be written as nothing at all.
    fn emit(&mut self, a: &Ast, min_prec: i32, seq_slot: bool, out: &mut Vec<Tok>) {
        if let Ast::Empty = a {
            if seq_slot && !self.coin(1, 4) {
                return;
            }
            out.push(Tok::Op("("));
            out.push(Tok::Op(")"));
            return;
        }
        let atom = matches!(a, Ast::Const(_) | Ast::Read(_));
        let required = ast_prec(a) < min_prec;
        let extra = match self.mode {
            Parens::Minimal => false,
            Parens::Full => !atom,
            Parens::Random => self.coin(1, if atom { 8 } else { 4 }),
        };
        if required || extra {
            out.push(Tok::Op("("));
            // inside parentheses anything goes; a second redundant pair now and then
            if self.mode == Parens::Random && self.coin(1, 10) {
                out.push(Tok::Op("("));
                self.emit_bare(a, out);
                out.push(Tok::Op(")"));
            } else {
                self.emit_bare(a, out);
            }
            out.push(Tok::Op(")"));
        } else {
            self.emit_bare(a, out);
        }
    }

    fn emit_bare(&mut self, a: &Ast, out: &mut Vec<Tok>) {
        match a {
            Ast::Empty => {},
            Ast::Missing => out.push(Tok::Ident("<missing>".into())),
            Ast::Const(v) => out.push(const_tok(v)),
            Ast::Read(n) => out.push(Tok::Ident(n.clone())),
            Ast::Group(x) => {
                out.push(Tok::Op("("));
                self.emit(x, 0, true, out);
                out.push(Tok::Op(")"));
            },
            Ast::Call(f, arg) => {
                out.push(Tok::Ident(f.clone()));
                let can_juxtapose = matches!(**arg, Ast::Const(_) | Ast::Read(_) | Ast::Call(..));
                if can_juxtapose && self.juxtapose_calls && self.coin(1, 3) {
                    self.emit_bare(arg, out);
                } else {
                    out.push(Tok::Op("("));
                    self.emit(arg, 0, true, out);
                    out.push(Tok::Op(")"));
                }
            },
            Ast::Un(o, x) => {
                out.push(Tok::Op(if *o == "neg" { "-" } else { "!" }));
                self.emit(x, 110, false, out);
            },
            Ast::Bin(o, l, r) => {
                let p = bin_prec(o);
                self.emit(l, p, false, out);
                out.push(Tok::Op(o));
                // a prefix operator as right operand of ^ is always parenthesised (documentation ambiguous)
                let rp = if *o == "^" && matches!(**r, Ast::Un(..)) { 200 } else { p + 1 };
                self.emit(r, rp, false, out);
            },
            Ast::Assign(o, t, r) => {
                out.push(Tok::Ident(t.clone()));
                out.push(Tok::Op(o));
                let rp = if *o == "=" {
                    match &**r {
                        Ast::Assign(o2, _, _) if *o2 != "=" => 51,
                        _ => 50,
                    }
                } else {
                    51
                };
                self.emit(r, rp, false, out);
            },
            Ast::Tuple(v) => {
                for (i, e) in v.iter().enumerate() {
                    if i > 0 {
                        out.push(Tok::Op(","));
                    }
                    self.emit(e, 41, true, out);
                }
            },
            Ast::Chain(v) => {
                for (i, e) in v.iter().enumerate() {
                    if i > 0 {
                        out.push(Tok::Op(";"));
                    }
                    self.emit(e, 1, true, out);
                }
            },
        }
    }
}

pub fn render_ast(a: &Ast, mode: Parens, rng: Option<&mut Rng>, juxtapose_calls: bool) -> Vec<Tok> {
    let mut r = Renderer {
        mode,
        rng,
        juxtapose_calls,
    };
    r.render(a)
}

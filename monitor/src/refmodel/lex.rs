//! Reference lexer, written from the README's description of the language (not from src/token).

use super::value::quote;

#[derive(Clone, Debug)]
pub enum Tok {
    /// operators and punctuation: + - * / % ^ == != > < >= <= && || ! ( ) = += -= *= /= %= ^= &&= ||= , ;
    Op(&'static str),
    Int(i64),
    Float(f64),
    Bool(bool),
    Str(String),
    Ident(String),
    /// a literal token written in a particular way (`0x1e` for 30, `1E+3` for 1000.0); equal to the plain token
    Spelled(Box<Tok>, String),
}

pub const OPS: [&str; 28] = [
    "+", "-", "*", "/", "%", "^", "==", "!=", ">", "<", ">=", "<=", "&&", "||", "!", "(", ")", "=", "+=", "-=",
    "*=", "/=", "%=", "^=", "&&=", "||=", ",", ";",
];

pub const BINOPS: [&str; 14] = [
    "^", "*", "/", "%", "+", "-", "<", ">", "<=", ">=", "==", "!=", "&&", "||",
];
pub const ASSIGNOPS: [&str; 9] = ["=", "+=", "-=", "*=", "/=", "%=", "^=", "&&=", "||="];

pub fn op_static(s: &str) -> Option<&'static str> {
    OPS.iter().copied().find(|o| !o.is_empty() && *o == s)
}

impl PartialEq for Tok {
    fn eq(&self, other: &Tok) -> bool {
        match (self.inner(), other.inner()) {
            (Tok::Op(a), Tok::Op(b)) => a == b,
            (Tok::Int(a), Tok::Int(b)) => a == b,
            (Tok::Float(a), Tok::Float(b)) => a.to_bits() == b.to_bits(),
            (Tok::Bool(a), Tok::Bool(b)) => a == b,
            (Tok::Str(a), Tok::Str(b)) => a == b,
            (Tok::Ident(a), Tok::Ident(b)) => a == b,
            _ => false,
        }
    }
}

impl Tok {
    /// the token without its spelling
    pub fn inner(&self) -> &Tok {
        match self {
            Tok::Spelled(t, _) => t.inner(),
            t => t,
        }
    }

    /// canonical source text of the token
    pub fn text(&self) -> String {
        match self {
            Tok::Spelled(_, s) => s.clone(),
            Tok::Op(o) => o.to_string(),
            Tok::Int(i) => format!("{}", i),
            Tok::Float(f) => format!("{:?}", f),
            Tok::Bool(b) => format!("{}", b),
            Tok::Str(s) => quote(s),
            Tok::Ident(s) => s.clone(),
        }
    }
    pub fn is_op(&self, o: &str) -> bool {
        matches!(self.inner(), Tok::Op(x) if *x == o)
    }
    pub fn is_literal(&self) -> bool {
        matches!(self.inner(), Tok::Int(_) | Tok::Float(_) | Tok::Bool(_) | Tok::Str(_))
    }
    pub fn is_ident(&self) -> bool {
        matches!(self.inner(), Tok::Ident(_))
    }
    pub fn is_word(&self) -> bool {
        matches!(self.inner(), Tok::Int(_) | Tok::Float(_) | Tok::Bool(_) | Tok::Ident(_))
    }
}

/// The 25 code points with the Unicode White_Space property.
pub const WHITESPACE: [char; 25] = [
    '\u{9}', '\u{a}', '\u{b}', '\u{c}', '\u{d}', ' ', '\u{85}', '\u{a0}', '\u{1680}', '\u{2000}', '\u{2001}',
    '\u{2002}', '\u{2003}', '\u{2004}', '\u{2005}', '\u{2006}', '\u{2007}', '\u{2008}', '\u{2009}', '\u{200a}',
    '\u{2028}', '\u{2029}', '\u{202f}', '\u{205f}', '\u{3000}',
];

pub fn is_ws(c: char) -> bool {
    WHITESPACE.contains(&c)
}

pub fn is_op_char(c: char) -> bool {
    "+-*/%^()=!<>&|,;".contains(c)
}

pub fn is_word_char(c: char) -> bool {
    !is_ws(c) && !is_op_char(c) && c != '"'
}

#[derive(Clone, Debug, PartialEq)]
pub enum LexErr {
    UnterminatedString,
    BadEscape,
    UnterminatedComment,
    LoneAmpOrBar,
}

#[derive(Clone, Debug, PartialEq)]
pub enum WordClass {
    Int(i64),
    Float(f64),
    Bool(bool),
    Ident,
    /// `<mantissa>e` — becomes a float if directly followed by a sign and digits, an identifier otherwise
    MantissaE,
    /// the README says nothing about it (integer / hex literal outside the 64-bit range, float overflowing to infinity)
    Unclaimed,
}

fn all_digits(s: &str) -> bool {
    !s.is_empty() && s.bytes().all(|b| b.is_ascii_digit())
}

/// `digits [. digits*]` or `. digits+`
fn is_mantissa(s: &str) -> bool {
    let (ip, fp) = match s.find('.') {
        Some(p) => (&s[..p], Some(&s[p + 1..])),
        None => (s, None),
    };
    match fp {
        None => all_digits(ip),
        Some(fp) => {
            (ip.is_empty() || all_digits(ip))
                && (fp.is_empty() || all_digits(fp))
                && !(ip.is_empty() && fp.is_empty())
        },
    }
}

pub fn classify_word(w: &str) -> WordClass {
    if all_digits(w) {
        return match w.parse::<i64>() {
            Ok(i) => WordClass::Int(i),
            Err(_) => WordClass::Unclaimed,
        };
    }
    if let Some(h) = w.strip_prefix("0x") {
        if !h.is_empty() && h.bytes().all(|b| b.is_ascii_hexdigit()) {
            return match i64::from_str_radix(h, 16) {
                Ok(i) => WordClass::Int(i),
                Err(_) => WordClass::Unclaimed,
            };
        }
    }
    if w == "true" {
        return WordClass::Bool(true);
    }
    if w == "false" {
        return WordClass::Bool(false);
    }
    // float: mantissa [e|E digits+]
    if w.is_ascii() {
        let lower = w.to_ascii_lowercase();
        let (m, e) = match lower.find('e') {
            Some(p) => (&lower[..p], Some(&lower[p + 1..])),
            None => (&lower[..], None),
        };
        if is_mantissa(m) {
            match e {
                None => return float_or_unclaimed(w),
                Some(e) if all_digits(e) => return float_or_unclaimed(w),
                Some("") => return WordClass::MantissaE,
                _ => {},
            }
        }
    }
    WordClass::Ident
}

fn float_or_unclaimed(w: &str) -> WordClass {
    match w.parse::<f64>() {
        Ok(f) if f.is_finite() => WordClass::Float(f),
        _ => WordClass::Unclaimed,
    }
}

#[derive(Clone, Debug)]
pub struct Lexed {
    pub toks: Vec<Tok>,
    /// some word is outside what the documentation defines
    pub unclaimed: bool,
}

pub fn lex(src: &str) -> Result<Lexed, LexErr> {
    let cs: Vec<char> = src.chars().collect();
    let mut i = 0;
    let mut toks = Vec::new();
    let mut unclaimed = false;
    while i < cs.len() {
        let c = cs[i];
        if c == '"' {
            i += 1;
            let mut s = String::new();
            loop {
                if i >= cs.len() {
                    return Err(LexErr::UnterminatedString);
                }
                let d = cs[i];
                i += 1;
                if d == '"' {
                    break;
                }
                if d == '\\' {
                    if i >= cs.len() {
                        return Err(LexErr::BadEscape);
                    }
                    let e = cs[i];
                    i += 1;
                    if e == '"' || e == '\\' {
                        s.push(e);
                    } else {
                        return Err(LexErr::BadEscape);
                    }
                } else {
                    s.push(d);
                }
            }
            toks.push(Tok::Str(s));
            continue;
        }
        if c == '/' && i + 1 < cs.len() && cs[i + 1] == '/' {
            i += 2;
            while i < cs.len() && cs[i] != '\n' {
                i += 1;
            }
            if i < cs.len() {
                i += 1;
            }
            continue;
        }
        if c == '/' && i + 1 < cs.len() && cs[i + 1] == '*' {
            i += 2;
            let mut closed = false;
            while i + 1 < cs.len() {
                if cs[i] == '*' && cs[i + 1] == '/' {
                    closed = true;
                    i += 2;
                    break;
                }
                i += 1;
            }
            if !closed {
                return Err(LexErr::UnterminatedComment);
            }
            continue;
        }
        if is_ws(c) {
            i += 1;
            continue;
        }
        if is_op_char(c) {
            let rest: String = cs[i..cs.len().min(i + 3)].iter().collect();
            let mut found = None;
            for cand in ["&&=", "||=", "==", "!=", ">=", "<=", "&&", "||", "+=", "-=", "*=", "/=", "%=", "^="] {
                if rest.starts_with(cand) {
                    found = Some(cand);
                    break;
                }
            }
            if let Some(f) = found {
                toks.push(Tok::Op(op_static(f).unwrap()));
                i += f.chars().count();
                continue;
            }
            if c == '&' || c == '|' {
                return Err(LexErr::LoneAmpOrBar);
            }
            let s = c.to_string();
            toks.push(Tok::Op(op_static(&s).unwrap()));
            i += 1;
            continue;
        }
        // a word
        let start = i;
        while i < cs.len() && is_word_char(cs[i]) {
            i += 1;
        }
        let w: String = cs[start..i].iter().collect();
        match classify_word(&w) {
            WordClass::Int(v) => toks.push(Tok::Int(v)),
            WordClass::Float(f) => toks.push(Tok::Float(f)),
            WordClass::Bool(b) => toks.push(Tok::Bool(b)),
            WordClass::Ident => toks.push(Tok::Ident(w)),
            WordClass::Unclaimed => {
                unclaimed = true;
                toks.push(Tok::Ident(w));
            },
            WordClass::MantissaE => {
                // signed exponent: sign and digits must follow without any separator
                if i + 1 < cs.len() && (cs[i] == '+' || cs[i] == '-') && is_word_char(cs[i + 1]) {
                    let mut j = i + 1;
                    while j < cs.len() && is_word_char(cs[j]) {
                        j += 1;
                    }
                    let e: String = cs[i + 1..j].iter().collect();
                    if all_digits(&e) {
                        let full: String = cs[start..j].iter().collect();
                        match full.parse::<f64>() {
                            Ok(f) if f.is_finite() => toks.push(Tok::Float(f)),
                            _ => {
                                unclaimed = true;
                                toks.push(Tok::Ident(full));
                            },
                        }
                        i = j;
                        continue;
                    }
                }
                toks.push(Tok::Ident(w));
            },
        }
    }
    Ok(Lexed { toks, unclaimed })
}

pub fn render_spaced(toks: &[Tok]) -> String {
    toks.iter().map(|t| t.text()).collect::<Vec<_>>().join(" ")
}

//! Error classes: the abstraction at which reference results and implementation results are compared.

use evalexpr::EvalexprError;

#[derive(Clone, Debug, PartialEq, Eq, Hash)]
pub enum ErrClass {
    Arith,
    Type,
    UnknownVar(String),
    UnknownFn(String),
    NotMutable,
    Arity,
    User(String),
    OutOfBounds,
    Parse(String),
    Other(String),
}

impl ErrClass {
    pub fn show(&self) -> String {
        format!("{:?}", self)
    }
}

pub fn variant_name(e: &EvalexprError) -> String {
    format!("{:?}", e)
        .split(|c: char| !c.is_alphanumeric())
        .next()
        .unwrap_or("")
        .to_string()
}

pub fn classify(e: &EvalexprError) -> ErrClass {
    use EvalexprError::*;
    #[allow(unreachable_patterns)]
    match e {
        AdditionError { .. }
        | SubtractionError { .. }
        | NegationError { .. }
        | MultiplicationError { .. }
        | DivisionError { .. }
        | ModulationError { .. } => ErrClass::Arith,
        ExpectedString { .. }
        | ExpectedInt { .. }
        | ExpectedFloat { .. }
        | ExpectedNumber { .. }
        | ExpectedNumberOrString { .. }
        | ExpectedBoolean { .. }
        | ExpectedTuple { .. }
        | ExpectedFixedLengthTuple { .. }
        | ExpectedRangedLengthTuple { .. }
        | ExpectedEmpty { .. }
        | TypeError { .. }
        | WrongTypeCombination { .. } => ErrClass::Type,
        VariableIdentifierNotFound(n) => ErrClass::UnknownVar(n.clone()),
        FunctionIdentifierNotFound(n) => ErrClass::UnknownFn(n.clone()),
        ContextNotMutable => ErrClass::NotMutable,
        WrongOperatorArgumentAmount { .. } | WrongFunctionArgumentAmount { .. } => ErrClass::Arity,
        CustomMessage(m) => ErrClass::User(m.clone()),
        OutOfBoundsAccess | IntFromUsize { .. } | IntIntoUsize { .. } => ErrClass::OutOfBounds,
        UnmatchedLBrace
        | UnmatchedRBrace
        | UnmatchedDoubleQuote
        | MissingOperatorOutsideOfBrace
        | AppendedToLeafNode
        | PrecedenceViolation
        | UnmatchedPartialToken { .. }
        | IllegalEscapeSequence(_) => ErrClass::Parse(variant_name(e)),
        other => ErrClass::Other(variant_name(other)),
    }
}

/// NaN-aware structural identity of two implementation observations, through their Debug rendering
/// (every NaN prints as `NaN`, -0.0 as `-0.0`, and the shortest-round-trip rendering is injective otherwise).
pub fn same_debug<T: std::fmt::Debug>(a: &T, b: &T) -> bool {
    format!("{:?}", a) == format!("{:?}", b)
}

//! Reference evaluator over the reference AST, with an abstract context model. Written from the README.

use super::builtins::{self, Exp};
use super::errs::ErrClass;
use super::parse::Ast;
use super::value::{Ty, RV};
use crate::observe::FnModel;
use std::collections::BTreeMap;

#[derive(Clone, Debug)]
pub enum RErr {
    /// an error of this class
    Class(ErrClass),
    /// some error, class not pinned down (builtin argument errors)
    AnyError,
    /// the documentation leaves the outcome open; the case is skipped
    Unclaimed(String),
}

impl RErr {
    pub fn show(&self) -> String {
        match self {
            RErr::Class(c) => c.show(),
            RErr::AnyError => "AnyError".into(),
            RErr::Unclaimed(s) => format!("Unclaimed({})", s),
        }
    }
}

#[derive(Clone, Debug)]
pub enum REvent {
    UserCall(String, RV),
    /// set_value(identifier, value) reached the context; bool = accepted
    Set(String, RV, bool),
}

impl REvent {
    pub fn show(&self) -> String {
        match self {
            REvent::UserCall(n, v) => format!("call {} {}", n, v.show()),
            REvent::Set(n, v, ok) => format!("set {} {} {}", n, v.show(), if *ok { "ok" } else { "rejected" }),
        }
    }
    pub fn same(&self, o: &REvent) -> bool {
        match (self, o) {
            (REvent::UserCall(a, x), REvent::UserCall(b, y)) => a == b && x.same(y),
            (REvent::Set(a, x, p), REvent::Set(b, y, q)) => a == b && x.same(y) && p == q,
            _ => false,
        }
    }
}

/// Abstract model of a context.
#[derive(Clone, Debug)]
pub struct Model {
    pub vars: BTreeMap<String, RV>,
    pub funs: BTreeMap<String, FnModel>,
    pub builtins_off: bool,
    /// false: the context is shared immutably or has no variable storage: every assignment fails
    pub mutable: bool,
    /// true: evaluated through the mutable path, but the context's set_value is the trait default (ContextNotMutable)
    pub set_not_mutable: bool,
}

impl Model {
    pub fn new() -> Model {
        Model {
            vars: BTreeMap::new(),
            funs: BTreeMap::new(),
            builtins_off: false,
            mutable: true,
            set_not_mutable: false,
        }
    }

    /// HashMapContext::set_value: absent => insert; same type => overwrite; else expected-type error, no change
    pub fn set(&mut self, k: &str, v: RV) -> Result<(), Ty> {
        if let Some(old) = self.vars.get(k) {
            if old.ty() != v.ty() {
                return Err(old.ty());
            }
        }
        self.vars.insert(k.to_string(), v);
        Ok(())
    }

    pub fn same_vars(&self, o: &Model) -> bool {
        self.vars.len() == o.vars.len()
            && self
                .vars
                .iter()
                .zip(o.vars.iter())
                .all(|((a, x), (b, y))| a == b && x.same(y))
    }

    pub fn show_vars(&self) -> String {
        format!(
            "{{{}}}",
            self.vars
                .iter()
                .map(|(k, v)| format!("{}={}", k, v.show()))
                .collect::<Vec<_>>()
                .join(", ")
        )
    }
}

#[derive(Clone, Debug, Default)]
pub struct Run {
    pub log: Vec<REvent>,
    /// the application of an assignment operator was reached (successfully or not)
    pub assign_reached: bool,
    /// number of AST nodes whose application was reached (for schedule evidence)
    pub applied: u64,
}

fn type_err() -> RErr {
    RErr::Class(ErrClass::Type)
}
fn arith() -> RErr {
    RErr::Class(ErrClass::Arith)
}

/// Binary operator table: integers through i128 then range-check; any float => both as f64, IEEE.
pub fn refop(op: &str, a: &RV, b: &RV) -> Result<RV, RErr> {
    match op {
        "+" | "-" | "*" | "/" | "%" => {
            if op == "+" {
                if let (RV::Str(x), RV::Str(y)) = (a, b) {
                    return Ok(RV::Str(format!("{}{}", x, y)));
                }
            }
            match (a, b) {
                (RV::Int(x), RV::Int(y)) => {
                    let (x, y) = (*x as i128, *y as i128);
                    let r = match op {
                        "+" => x + y,
                        "-" => x - y,
                        "*" => x * y,
                        "/" => {
                            if y == 0 {
                                return Err(arith());
                            }
                            x / y
                        },
                        _ => {
                            if y == 0 {
                                return Err(arith());
                            }
                            if x == i64::MIN as i128 && y == -1 {
                                // mathematically 0, but the division it is defined by overflows: both readings accepted
                                return Err(RErr::Unclaimed("MIN % -1".into()));
                            }
                            x % y
                        },
                    };
                    if r < i64::MIN as i128 || r > i64::MAX as i128 {
                        Err(arith())
                    } else {
                        Ok(RV::Int(r as i64))
                    }
                },
                _ => match (a.num(), b.num()) {
                    (Some(x), Some(y)) => Ok(RV::Float(match op {
                        "+" => x + y,
                        "-" => x - y,
                        "*" => x * y,
                        "/" => x / y,
                        _ => x % y,
                    })),
                    _ => Err(type_err()),
                },
            }
        },
        "^" => match (a.num(), b.num()) {
            (Some(x), Some(y)) => Ok(RV::Float(x.powf(y))),
            _ => Err(type_err()),
        },
        "==" => Ok(RV::Bool(a.lang_eq(b))),
        "!=" => Ok(RV::Bool(!a.lang_eq(b))),
        "<" | ">" | "<=" | ">=" => {
            let c = |o: Option<std::cmp::Ordering>| {
                Ok(RV::Bool(match o {
                    None => false,
                    Some(o) => match op {
                        "<" => o.is_lt(),
                        ">" => o.is_gt(),
                        "<=" => o.is_le(),
                        _ => o.is_ge(),
                    },
                }))
            };
            match (a, b) {
                (RV::Str(x), RV::Str(y)) => c(Some(x.cmp(y))),
                (RV::Int(x), RV::Int(y)) => c(Some(x.cmp(y))),
                _ => match (a.num(), b.num()) {
                    (Some(x), Some(y)) => c(x.partial_cmp(&y)),
                    _ => Err(type_err()),
                },
            }
        },
        "&&" | "||" => match (a, b) {
            (RV::Bool(x), RV::Bool(y)) => Ok(RV::Bool(if op == "&&" { *x && *y } else { *x || *y })),
            _ => Err(type_err()),
        },
        _ => Err(RErr::Unclaimed(format!("unknown operator {}", op))),
    }
}

pub fn refun(op: &str, a: &RV) -> Result<RV, RErr> {
    match op {
        "neg" => match a {
            RV::Int(i) => i.checked_neg().map(RV::Int).ok_or_else(arith),
            RV::Float(f) => Ok(RV::Float(-f)),
            _ => Err(type_err()),
        },
        "!" => match a {
            RV::Bool(b) => Ok(RV::Bool(!b)),
            _ => Err(type_err()),
        },
        _ => Err(RErr::Unclaimed(format!("unknown prefix operator {}", op))),
    }
}

pub fn apply_fn_model(name: &str, m: &FnModel, arg: &RV) -> Result<RV, RErr> {
    let user = |s: String| RErr::Class(ErrClass::User(s));
    match m {
        FnModel::Identity => Ok(arg.clone()),
        FnModel::Marker => Ok(RV::Tuple(vec![RV::Str(format!("user:{}", name)), arg.clone()])),
        FnModel::Const(v) => Ok(RV::from_value(v)),
        // the message embeds evalexpr's Display of the argument; the harness function builds the same text from
        // the same Display, and the reference only compares the prefix (see `user_msg_matches`)
        FnModel::Fail => Err(user(format!("fail {}", arg.to_value()))),
        FnModel::IntMap => match arg {
            RV::Int(k) => Ok(RV::Int(k.rem_euclid(5) - 2)),
            _ => Err(user("model function: not an int".to_string())),
        },
        FnModel::BoolMap => match arg {
            RV::Int(k) => Ok(RV::Bool(k.rem_euclid(2) == 0)),
            _ => Err(user("model function: not an int".to_string())),
        },
        FnModel::StrMap => match arg {
            RV::Int(k) => Ok(RV::Str(format!("s{}", k))),
            _ => Err(user("model function: not an int".to_string())),
        },
        FnModel::FloatMap => match arg {
            RV::Int(k) => Ok(RV::Float(*k as f64 / 2.0)),
            _ => Err(user("model function: not an int".to_string())),
        },
        FnModel::Nested => Ok(RV::Tuple(vec![arg.clone(), RV::Int(3)])),
        FnModel::NeedsTuple => match arg {
            RV::Tuple(t) => Ok(RV::Int(t.len() as i64)),
            _ => Err(RErr::Class(ErrClass::Type)),
        },
        // the function exists and was called: its error is the outcome. (If it names itself, the Context trait cannot
        // tell the failure from "no such function in this context"; that case is not claimed.)
        FnModel::SameNameInner => Ok(RV::Tuple(vec![RV::Str(format!("user:{}", name)), RV::Int(5)])),
        FnModel::Deep => match arg {
            RV::Int(k) if (0..=80).contains(k) => Ok(RV::Int(*k)),
            _ => Err(user("deep: not an int in 0..=80".to_string())),
        },
        FnModel::FailNotFound(inner) => {
            if *inner == name {
                Err(RErr::Unclaimed("a user function reporting itself as not found".into()))
            } else {
                Err(RErr::Class(ErrClass::UnknownFn(inner.to_string())))
            }
        },
    }
}

pub fn eval(ast: &Ast, m: &mut Model, run: &mut Run) -> Result<RV, RErr> {
    let r = eval_inner(ast, m, run);
    r
}

fn eval_inner(ast: &Ast, m: &mut Model, run: &mut Run) -> Result<RV, RErr> {
    match ast {
        Ast::Empty => Ok(RV::Empty),
        Ast::Missing => Err(RErr::Unclaimed("missing operand".into())),
        Ast::Group(x) => eval_inner(x, m, run),
        Ast::Const(v) => {
            run.applied += 1;
            Ok(v.clone())
        },
        Ast::Read(n) => {
            run.applied += 1;
            match m.vars.get(n) {
                Some(v) => Ok(v.clone()),
                None => Err(RErr::Class(ErrClass::UnknownVar(n.clone()))),
            }
        },
        Ast::Un(op, x) => {
            let v = eval_inner(x, m, run)?;
            run.applied += 1;
            refun(op, &v)
        },
        Ast::Bin(op, l, r) => {
            let a = eval_inner(l, m, run)?;
            let b = eval_inner(r, m, run)?;
            run.applied += 1;
            refop(op, &a, &b)
        },
        Ast::Tuple(v) => {
            let mut out = Vec::with_capacity(v.len());
            for e in v {
                out.push(eval_inner(e, m, run)?);
            }
            run.applied += 1;
            Ok(RV::Tuple(out))
        },
        Ast::Chain(v) => {
            let mut last = RV::Empty;
            for e in v {
                last = eval_inner(e, m, run)?;
            }
            run.applied += 1;
            Ok(last)
        },
        Ast::Assign(op, target, rhs) => {
            let v = eval_inner(rhs, m, run)?;
            run.applied += 1;
            run.assign_reached = true;
            if !m.mutable {
                return Err(RErr::Class(ErrClass::NotMutable));
            }
            let newv = if *op == "=" {
                v
            } else {
                let cur = match m.vars.get(target) {
                    Some(c) => c.clone(),
                    None => return Err(RErr::Class(ErrClass::UnknownVar(target.clone()))),
                };
                let base = &op[..op.len() - 1];
                refop(base, &cur, &v)?
            };
            if m.set_not_mutable {
                return Err(RErr::Class(ErrClass::NotMutable));
            }
            match m.set(target, newv.clone()) {
                Ok(()) => {
                    run.log.push(REvent::Set(target.clone(), newv, true));
                    Ok(RV::Empty)
                },
                Err(_) => {
                    run.log.push(REvent::Set(target.clone(), newv, false));
                    Err(type_err())
                },
            }
        },
        Ast::Call(f, arg) => {
            let a = eval_inner(arg, m, run)?;
            run.applied += 1;
            if let Some(model) = m.funs.get(f) {
                run.log.push(REvent::UserCall(f.clone(), a.clone()));
                return apply_fn_model(f, model, &a);
            }
            if m.builtins_off {
                return Err(RErr::Class(ErrClass::UnknownFn(f.clone())));
            }
            match builtins::reference(f, &a) {
                None => Err(RErr::Class(ErrClass::UnknownFn(f.clone()))),
                Some(Exp::V(v)) => Ok(v),
                Some(Exp::Err) => Err(RErr::AnyError),
                // alternatives that all denote the same value are exact
                Some(Exp::Alt(alts))
                    if !alts.is_empty()
                        && alts.iter().all(|e| match (e, &alts[0]) {
                            (Exp::V(a), Exp::V(b)) => a.same(b),
                            _ => false,
                        }) =>
                {
                    match &alts[0] {
                        Exp::V(v) => Ok(v.clone()),
                        _ => Err(RErr::AnyError),
                    }
                },
                Some(other) => Err(RErr::Unclaimed(format!("builtin {} on {}: {}", f, a.show(), other.show()))),
            }
        },
    }
}

/// Does the implementation's outcome match the reference outcome?  `got`: Ok(value) or Err(class).
pub fn outcome_matches(exp: &Result<RV, RErr>, got: &Result<RV, ErrClass>) -> bool {
    match (exp, got) {
        (Ok(a), Ok(b)) => a.same(b),
        (Err(RErr::AnyError), Err(_)) => true,
        (Err(RErr::Class(ErrClass::User(a))), Err(ErrClass::User(b))) => a == b,
        (Err(RErr::Class(a)), Err(b)) => a == b,
        (Err(RErr::Unclaimed(_)), _) => true,
        _ => false,
    }
}

//! Deterministic PRNG (xoshiro256**), seeded through splitmix64, so that every case of every phase can be
//! regenerated from (seed, phase, index) alone.

#[derive(Clone)]
pub struct Rng {
    s: [u64; 4],
}

pub fn splitmix(x: &mut u64) -> u64 {
    *x = x.wrapping_add(0x9E37_79B9_7F4A_7C15);
    let mut z = *x;
    z = (z ^ (z >> 30)).wrapping_mul(0xBF58_476D_1CE4_E5B9);
    z = (z ^ (z >> 27)).wrapping_mul(0x94D0_49BB_1331_11EB);
    z ^ (z >> 31)
}

/// FNV-1a, used to derive phase salts and case hashes.
pub fn fnv(bytes: &[u8]) -> u64 {
    let mut h: u64 = 0xcbf2_9ce4_8422_2325;
    for b in bytes {
        h ^= *b as u64;
        h = h.wrapping_mul(0x0000_0100_0000_01b3);
    }
    // final avalanche
    let mut x = h;
    splitmix(&mut x)
}

impl Rng {
    pub fn new(seed: u64) -> Rng {
        let mut x = seed;
        let s = [
            splitmix(&mut x),
            splitmix(&mut x),
            splitmix(&mut x),
            splitmix(&mut x),
        ];
        Rng { s }
    }

    /// RNG of one case: a function of the run seed, the phase name and the case index only.
    pub fn for_case(seed: u64, phase: &str, idx: u64) -> Rng {
        let mut x = seed ^ fnv(phase.as_bytes()).rotate_left(17) ^ idx.wrapping_mul(0xD6E8_FEB8_6659_FD93);
        let a = splitmix(&mut x);
        Rng::new(a ^ idx)
    }

    pub fn next(&mut self) -> u64 {
        let r = self.s[1].wrapping_mul(5).rotate_left(7).wrapping_mul(9);
        let t = self.s[1] << 17;
        self.s[2] ^= self.s[0];
        self.s[3] ^= self.s[1];
        self.s[1] ^= self.s[2];
        self.s[0] ^= self.s[3];
        self.s[2] ^= t;
        self.s[3] = self.s[3].rotate_left(45);
        r
    }

    pub fn below(&mut self, n: usize) -> usize {
        if n == 0 {
            return 0;
        }
        (self.next() % n as u64) as usize
    }

    pub fn range(&mut self, lo: usize, hi_incl: usize) -> usize {
        lo + self.below(hi_incl - lo + 1)
    }

    pub fn chance(&mut self, num: usize, den: usize) -> bool {
        self.below(den) < num
    }

    pub fn pick<'a, T>(&mut self, xs: &'a [T]) -> &'a T {
        &xs[self.below(xs.len())]
    }

    /// Integer uniform in bit length (so that small and huge magnitudes are equally likely), random sign.
    pub fn int_bitlen(&mut self) -> i64 {
        let bits = self.below(65);
        if bits == 0 {
            return 0;
        }
        if bits == 64 {
            return self.next() as i64;
        }
        let v = (self.next() >> (64 - bits)) as i64;
        if self.chance(1, 2) {
            v.wrapping_neg()
        } else {
            v
        }
    }

    /// Float uniform in bit pattern (all exponents, subnormals, infinities, NaNs).
    pub fn float_bits(&mut self) -> f64 {
        f64::from_bits(self.next())
    }
}

//! Framework: phases of deterministic cases, sharding, checkpoints, violation / evidence collection.

use crate::rng::{fnv, Rng};
use std::collections::{BTreeMap, HashSet};
use std::io::Write;

#[derive(Clone, Debug)]
pub struct Cfg {
    pub property: String,
    pub thorough: bool,
    pub seed: u64,
    pub shard: u64,
    pub nshards: u64,
    /// resume position: (phase index, case index)
    pub start: (usize, u64),
    /// write the checkpoint (with a description of the case) before every single case
    pub careful: bool,
    /// run exactly one case: (phase name, index)
    pub only: Option<(String, u64)>,
    pub out: String,
    /// multiplies the number of random cases (1.0 by default); for experiments only
    pub scale: f64,
}

impl Cfg {
    /// number of random cases: `quick` or `thorough`, scaled
    pub fn n(&self, quick: u64, thorough: u64) -> u64 {
        let base = if self.thorough { thorough } else { quick };
        ((base as f64) * self.scale).max(1.0) as u64
    }
}

#[derive(Clone, Debug)]
pub struct Violation {
    pub rule: String,
    pub phase: String,
    pub idx: u64,
    pub input: String,
    pub expected: String,
    pub observed: String,
}

pub struct Out {
    pub evaluations: u64,
    pub nontrivial: u64,
    pub distinct: HashSet<u64>,
    pub counters: BTreeMap<String, u64>,
    pub samples: Vec<String>,
    sample_quota: usize,
    pub violations: Vec<Violation>,
    pub violation_count: u64,
    per_rule: BTreeMap<String, u64>,
    pub inconclusive: Vec<String>,
    pub inconclusive_count: u64,
    pub cur_phase: String,
    pub cur_idx: u64,
    pub careful: bool,
    pub pending_desc: Option<String>,
    pub cp_path: Option<String>,
    pub cur_phase_index: usize,
    /// generic sets for "distinct X seen" evidence (parser states, schedules, error classes, ...)
    pub sets: BTreeMap<String, HashSet<u64>>,
}

pub const DISTINCT_CAP: usize = 3_000_000;
pub const MAX_VIOLATIONS_PER_RULE: u64 = 6;
pub const MAX_VIOLATIONS: usize = 60;

impl Out {
    pub fn new(careful: bool) -> Out {
        Out {
            evaluations: 0,
            nontrivial: 0,
            distinct: HashSet::new(),
            counters: BTreeMap::new(),
            samples: Vec::new(),
            sample_quota: 0,
            violations: Vec::new(),
            violation_count: 0,
            per_rule: BTreeMap::new(),
            inconclusive: Vec::new(),
            inconclusive_count: 0,
            cur_phase: String::new(),
            cur_idx: 0,
            careful,
            pending_desc: None,
            cp_path: None,
            cur_phase_index: 0,
            sets: BTreeMap::new(),
        }
    }

    /// Called at the start of a case with a lazily computed description; in careful mode the description is
    /// written to the checkpoint before anything of the case runs (so an abort can be attributed).
    pub fn begin<F: FnOnce() -> String>(&mut self, f: F) {
        if self.careful {
            let d = f();
            if let Some(p) = &self.cp_path {
                write_checkpoint(p, self.cur_phase_index, self.cur_idx, &clip(&d, 8000));
            }
            self.pending_desc = Some(d);
        }
    }

    /// one execution of the code under test
    pub fn eval(&mut self) {
        self.evaluations += 1;
    }
    pub fn evals(&mut self, n: u64) {
        self.evaluations += n;
    }

    /// a non-trivial case, identified by the hash of its normalised form
    pub fn nontrivial(&mut self, key: &str) {
        self.nontrivial_hash(fnv(key.as_bytes()));
    }
    pub fn nontrivial_hash(&mut self, h: u64) {
        self.nontrivial += 1;
        // the distinct set is capped per shard (memory); beyond the cap the count is conservative
        if self.distinct.len() < DISTINCT_CAP {
            self.distinct.insert(h);
        }
    }

    pub fn count(&mut self, key: &str) {
        *self.counters.entry(key.to_string()).or_insert(0) += 1;
    }
    pub fn count_n(&mut self, key: &str, n: u64) {
        *self.counters.entry(key.to_string()).or_insert(0) += n;
    }

    pub fn seen(&mut self, set: &str, key: &str) {
        self.sets
            .entry(set.to_string())
            .or_default()
            .insert(fnv(key.as_bytes()));
    }

    /// keep a few concrete cases per phase as evidence samples
    pub fn sample<F: FnOnce() -> String>(&mut self, f: F) {
        if self.sample_quota > 0 {
            self.sample_quota -= 1;
            let s = f();
            self.samples
                .push(format!("[{} #{}] {}", self.cur_phase, self.cur_idx, clip(&s, 400)));
        }
    }
    pub fn wants_sample(&self) -> bool {
        self.sample_quota > 0
    }

    pub fn violation(&mut self, rule: &str, input: String, expected: String, observed: String) {
        self.violation_count += 1;
        let c = self.per_rule.entry(rule.to_string()).or_insert(0);
        *c += 1;
        if *c <= MAX_VIOLATIONS_PER_RULE && self.violations.len() < MAX_VIOLATIONS {
            self.violations.push(Violation {
                rule: rule.to_string(),
                phase: self.cur_phase.clone(),
                idx: self.cur_idx,
                input: clip(&input, 6000),
                expected: clip(&expected, 2000),
                observed: clip(&observed, 2000),
            });
        }
    }

    /// Used by C01 when it borrows another property's workload: of the violations reported since `from`, only those
    /// witnessed by the panic monitor are kept.
    pub fn keep_only_panics_since(&mut self, from: usize, count_before: u64) {
        let mut kept = 0u64;
        let mut i = from;
        while i < self.violations.len() {
            let v = &self.violations[i];
            let is_panic = v.rule == "panic" || v.observed.starts_with("PANIC") || v.observed.contains("panicked");
            if is_panic {
                kept += 1;
                i += 1;
            } else {
                if let Some(c) = self.per_rule.get_mut(&v.rule) {
                    *c = c.saturating_sub(1);
                }
                self.violations.remove(i);
            }
        }
        self.violation_count = count_before + kept;
    }

    pub fn inconclusive(&mut self, what: String) {
        self.inconclusive_count += 1;
        if self.inconclusive.len() < 20 {
            self.inconclusive.push(format!(
                "[{} #{}] {}",
                self.cur_phase,
                self.cur_idx,
                clip(&what, 600)
            ));
        }
    }
}

pub fn clip(s: &str, n: usize) -> String {
    if s.chars().count() <= n {
        s.to_string()
    } else {
        let mut t: String = s.chars().take(n).collect();
        t.push_str("…[clipped]");
        t
    }
}

pub trait Phase {
    fn name(&self) -> String;
    fn len(&self) -> u64;
    /// true if the phase enumerates a finite space completely
    fn exhaustive(&self) -> bool {
        false
    }
    fn run(&mut self, idx: u64, rng: &mut Rng, out: &mut Out);
}

pub fn jstr(s: &str) -> String {
    let mut o = String::with_capacity(s.len() + 2);
    o.push('"');
    for c in s.chars() {
        match c {
            '"' => o.push_str("\\\""),
            '\\' => o.push_str("\\\\"),
            '\n' => o.push_str("\\n"),
            '\r' => o.push_str("\\r"),
            '\t' => o.push_str("\\t"),
            c if (c as u32) < 0x20 || c == '\u{7f}' || c == '\u{2028}' || c == '\u{2029}' => {
                o.push_str(&format!("\\u{:04x}", c as u32))
            },
            c => o.push(c),
        }
    }
    o.push('"');
    o
}

/// whole-file rewrite + rename; the reader only looks after the writer died
fn write_checkpoint(path: &str, phase: usize, idx: u64, desc: &str) {
    let tmp = format!("{}.tmp", path);
    if let Ok(mut f) = std::fs::File::create(&tmp) {
        let _ = writeln!(f, "{} {}", phase, idx);
        let _ = writeln!(f, "{}", desc);
        let _ = f.flush();
        drop(f);
        let _ = std::fs::rename(&tmp, path);
    }
}

/// Runs the phases of one shard and writes `<out>.json`, `<out>.distinct`; returns the process exit code
/// (0 = ran to completion, whatever it found; the driver decides the verdict).
/// One unrelated, failing use of the library on the current thread. Results are ignored; a panic here is not this
/// property's business (C01 drives all of these inputs itself).
pub fn perturb_history(r: &mut Rng) {
    const SOURCES: [&str; 16] = [
        "tmp/* unfinished",
        "ab12/*",
        "7e+/*x",
        "\"xy\\n\"",
        "q1 = \"pre\\q",
        "\"open",
        "w1 (",
        ") w2",
        "zz//c\n/*",
        "k3 \"\\\"",
        "12 34",
        "u5 = = 1",
        "((((1/0))))",
        "nosuch9(1, \"s\")",
        "v7 + (w8 = \"t\\",
        "1.5e+ /* e",
    ];
    let src = SOURCES[r.below(SOURCES.len())];
    let how = r.below(4);
    let _ = std::panic::catch_unwind(move || match how {
        0 => {
            let _ = evalexpr::build_operator_tree::<evalexpr::DefaultNumericTypes>(src);
        },
        1 => {
            let _ = evalexpr::eval(src);
        },
        2 => {
            let c = evalexpr::HashMapContext::<evalexpr::DefaultNumericTypes>::new();
            let _ = evalexpr::eval_with_context(src, &c);
        },
        _ => {
            let mut c = evalexpr::HashMapContext::<evalexpr::DefaultNumericTypes>::new();
            let _ = evalexpr::eval_with_context_mut(src, &mut c);
        },
    });
}

pub fn run_phases(cfg: &Cfg, mut phases: Vec<Box<dyn Phase>>, selfcheck: Result<String, String>) -> i32 {
    let mut out = Out::new(cfg.careful);
    let cp_path = format!("{}.progress", cfg.out);
    out.cp_path = Some(cp_path.clone());
    let mut phase_meta: Vec<(String, u64, bool, u64)> = Vec::new();
    let selfcheck_msg = match &selfcheck {
        Ok(s) => s.clone(),
        Err(e) => e.clone(),
    };
    if selfcheck.is_ok() {
        for (pi, phase) in phases.iter_mut().enumerate() {
            let name = phase.name();
            let len = phase.len();
            let mut ran = 0u64;
            out.cur_phase = name.clone();
            out.cur_phase_index = pi;
            out.sample_quota = 3;
            if let Some((only_name, _)) = &cfg.only {
                if *only_name != name {
                    continue;
                }
            }
            if pi < cfg.start.0 {
                phase_meta.push((name, len, phase.exhaustive(), 0));
                continue;
            }
            let mut idx = if pi == cfg.start.0 { cfg.start.1 } else { 0 };
            // align to this shard
            if let Some((_, only_idx)) = &cfg.only {
                idx = *only_idx;
            } else {
                let r = idx % cfg.nshards;
                if r != cfg.shard {
                    idx += (cfg.shard + cfg.nshards - r) % cfg.nshards;
                }
            }
            let mut since_cp = 0u32;
            while idx < len {
                out.cur_idx = idx;
                let mut rng = Rng::for_case(cfg.seed, &name, idx);
                if cfg.careful {
                    // two-step: first a bare checkpoint, then the phase fills in the description via out.begin
                    write_checkpoint(&cp_path, pi, idx, "");
                } else {
                    since_cp += 1;
                    if since_cp >= 512 {
                        since_cp = 0;
                        write_checkpoint(&cp_path, pi, idx, "");
                    }
                }
                out.pending_desc = None;
                crate::observe::clear_last_panic();
                // history perturbation: now and then the thread first does something unrelated that fails half-way
                // (a case judged afterwards must not inherit anything from it); a function of seed, phase and index,
                // so a replay of the case repeats it
                {
                    let mut pr = Rng::for_case(cfg.seed ^ 0x706f_6973, &name, idx);
                    if pr.below(6) == 0 {
                        perturb_history(&mut pr);
                        *out.counters.entry("history perturbations before a case (failing parses / evaluations on the same thread)".to_string()).or_insert(0) += 1;
                    }
                }
                crate::observe::clear_last_panic();
                crate::api::begin_case(Rng::for_case(cfg.seed ^ 0x6374_7873, &name, idx).next());
                let r = {
                    let phase_ref = &mut *phase;
                    let out_ref = &mut out;
                    std::panic::catch_unwind(std::panic::AssertUnwindSafe(move || {
                        phase_ref.run(idx, &mut rng, out_ref);
                    }))
                };
                for (rule, input, expected, observed) in crate::api::take_findings() {
                    out.violation(&rule, input, expected, observed);
                }
                if let Err(_) = r {
                    let info = crate::observe::last_panic();
                    let desc = out.pending_desc.clone().unwrap_or_default();
                    if info.in_harness {
                        out.inconclusive(format!("harness panic at {}: {} (case: {})", info.location, info.message, desc));
                    } else {
                        out.violation(
                            "panic",
                            if desc.is_empty() { format!("phase {} case {}", name, idx) } else { desc },
                            "returns Ok or Err".into(),
                            format!("panicked at {}: {}", info.location, info.message),
                        );
                    }
                }
                ran += 1;
                if cfg.only.is_some() {
                    break;
                }
                idx += cfg.nshards;
            }
            phase_meta.push((name, len, phase.exhaustive(), ran));
        }
    }
    // distinct hashes
    {
        let mut v: Vec<u64> = out.distinct.iter().copied().collect();
        v.sort_unstable();
        let mut bytes = Vec::with_capacity(v.len() * 8);
        for h in v {
            bytes.extend_from_slice(&h.to_le_bytes());
        }
        let _ = std::fs::write(format!("{}.distinct", cfg.out), bytes);
    }
    let mut j = String::new();
    j.push_str("{\n");
    j.push_str(&format!(" \"property\": {},\n", jstr(&cfg.property)));
    j.push_str(&format!(" \"tier\": {},\n", jstr(if cfg.thorough { "thorough" } else { "quick" })));
    j.push_str(&format!(" \"seed\": {},\n \"shard\": {},\n \"nshards\": {},\n", cfg.seed, cfg.shard, cfg.nshards));
    j.push_str(&format!(" \"selfcheck_ok\": {},\n \"selfcheck\": {},\n", selfcheck.is_ok(), jstr(&selfcheck_msg)));
    j.push_str(&format!(" \"evaluations\": {},\n \"nontrivial\": {},\n \"distinct_local\": {},\n", out.evaluations, out.nontrivial, out.distinct.len()));
    j.push_str(" \"counters\": {");
    j.push_str(&out.counters.iter().map(|(k, v)| format!("{}: {}", jstr(k), v)).collect::<Vec<_>>().join(", "));
    j.push_str("},\n \"sets\": {");
    {
        let mut parts = Vec::new();
        for (k, set) in &out.sets {
            let mut v: Vec<u64> = set.iter().copied().collect();
            v.sort_unstable();
            v.truncate(200_000);
            parts.push(format!("{}: [{}]", jstr(k), v.iter().map(|h| format!("\"{:x}\"", h)).collect::<Vec<_>>().join(",")));
        }
        j.push_str(&parts.join(", "));
    }
    j.push_str("},\n \"phases\": [");
    j.push_str(&phase_meta.iter().map(|(n, l, e, r)| format!("{{\"name\": {}, \"len\": {}, \"exhaustive\": {}, \"ran\": {}}}", jstr(n), l, e, r)).collect::<Vec<_>>().join(", "));
    j.push_str("],\n \"samples\": [");
    j.push_str(&out.samples.iter().map(|s| jstr(s)).collect::<Vec<_>>().join(", "));
    j.push_str("],\n \"violation_count\": ");
    j.push_str(&out.violation_count.to_string());
    j.push_str(",\n \"violations\": [");
    j.push_str(
        &out.violations
            .iter()
            .map(|v| {
                format!(
                    "{{\"rule\": {}, \"phase\": {}, \"idx\": {}, \"input\": {}, \"expected\": {}, \"observed\": {}}}",
                    jstr(&v.rule), jstr(&v.phase), v.idx, jstr(&v.input), jstr(&v.expected), jstr(&v.observed)
                )
            })
            .collect::<Vec<_>>()
            .join(",\n  "),
    );
    j.push_str("],\n \"inconclusive_count\": ");
    j.push_str(&out.inconclusive_count.to_string());
    j.push_str(",\n \"inconclusive\": [");
    j.push_str(&out.inconclusive.iter().map(|s| jstr(s)).collect::<Vec<_>>().join(", "));
    j.push_str("]\n}\n");
    if std::fs::write(format!("{}.json", cfg.out), j).is_err() {
        eprintln!("cannot write {}.json", cfg.out);
        return 3;
    }
    0
}
